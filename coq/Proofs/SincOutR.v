(** SincFixedOut in ideal arithmetic, constant ratio (any chunk-size schedule): one call is safe
    (every kernel window satisfies the interpolator's asserts, every slice operation is in
    range), keeps the invariant, produces exactly chunk_size frames from exactly
    input_frames_next() frames, and advances the carried position by chunk/r - consumed.       *)

From Coq Require Import ZArith Reals List Bool Lra Lia.
From Flocq Require Import Core.
From Rubato.Model Require Import Num Reals Base Validate Nearest Kernels Async Fft Resamplers.
From Rubato.Gen Require Import SincGen.
From Rubato.Proofs Require Import ShapeP ValidateP EngineP StepperR MalformedP NearestR FastInR SincInR.
Import ListNotations.
Local Open Scope R_scope.

Notation SO := (@SincFixedOut CR).

Section Call.
Variable env : sinc_env.
Notation A := (@so_arch CR SR env).
Notation ST := (@astate CR SR SO).

Definition uC (s : ST) : Z := SincFixedOut_chunk_size (as_ctl s).
Definition uCmax (s : ST) : Z := SincFixedOut_max_chunk_size (as_ctl s).
Definition unch (s : ST) : Z := SincFixedOut_nbr_channels (as_ctl s).
Definition uratio (s : ST) : R := SincFixedOut_resample_ratio (as_ctl s).
Definition uli (s : ST) : R := SincFixedOut_last_index (as_ctl s).
Definition uL (s : ST) : Z := SincFixedOut_interpolator_len (as_ctl s).
Definition unbr (s : ST) : Z := SincFixedOut_interpolator_nbr_sincs (as_ctl s).
Definition ufill (s : ST) : Z := SincFixedOut_current_buffer_fill (as_ctl s).
Definition uneeded (s : ST) : Z := SincFixedOut_needed_input_size (as_ctl s).

(* [blen]: the (constant) length of every internal buffer *)
Record so_wf (blen : Z) (s : ST) : Prop := {
  uw_C : (1 <= uC s <= uCmax s)%Z;
  uw_n : (0 <= unch s)%Z;
  uw_lenb : length (as_buf s) = Z.to_nat (unch s);
  uw_lenm : length (as_mask s) = Z.to_nat (unch s);
  uw_bufs : all_len blen (as_buf s);
  uw_r : 0 < uratio s;
  uw_t : SincFixedOut_target_ratio (as_ctl s) = uratio s;
  uw_L : (8 <= uL s)%Z;
  uw_nbr : nbr_ok (se_type env) (unbr s);
  uw_li : - IZR (uL s) - 1 < uli s <= -4;
  uw_needed : uneeded s = Zceil (uli s + IZR (uC s) * / uratio s + IZR (uL s));
  uw_fill : (0 <= ufill s /\ ufill s + 2 * uL s <= blen)%Z;    (* the frames of the last call, wherever its ratio put them *)
  uw_blen : (Zceil (IZR (uCmax s) * / uratio s) + 3 * uL s <= blen)%Z;
}.

Lemma so_update_needed_R (st : SO) : 0 < SincFixedOut_resample_ratio st -> SincFixedOut_target_ratio st = SincFixedOut_resample_ratio st ->
  @so_update_needed_len CR st =
  Z.max 0 (Zceil (SincFixedOut_last_index st + IZR (SincFixedOut_chunk_size st) * / SincFixedOut_resample_ratio st
                  + IZR (SincFixedOut_interpolator_len st))).
Proof.
  intros H Ht.
  transitivity (Z.max 0 (Ztrunc (IZR (Zceil (SincFixedOut_last_index st + IZR (SincFixedOut_chunk_size st) /
      (1 / 2 * SincFixedOut_resample_ratio st + 1 / 2 * SincFixedOut_resample_ratio st) + IZR (SincFixedOut_interpolator_len st)))))).
  { unfold so_update_needed_len. rewrite Ht. reflexivity. }
  rewrite Ztrunc_IZR_id. f_equal. f_equal. f_equal. f_equal. field. lra.
Qed.

Theorem so_call_const_R blen (s : ST) wi wo m :
  so_wf blen s -> a_precheck A s wi wo m = Ok tt ->
  exists (s' : ST) outs,
    pib A s wi wo m = Ok (s', (uneeded s, uC s), outs) /\ so_wf blen s' /\
    uli s' = uli s + IZR (uC s) * / uratio s - IZR (uneeded s) /\
    uC s' = uC s /\ uCmax s' = uCmax s /\ unch s' = unch s /\ uratio s' = uratio s /\ uL s' = uL s /\ (0 <= uneeded s)%Z.
Proof.
  intros W Hpre. destruct W as [WC Wn Wlb Wlm Wb Wr Wt WL Wnb Wli Wnd Wfl Wbl].
  unfold uC, uCmax, unch, uratio, uli, uL, unbr, ufill, uneeded in *.
  set (st := as_ctl s) in *.
  set (Cc := SincFixedOut_chunk_size st) in *.
  set (Cm := SincFixedOut_max_chunk_size st) in *.
  set (L := SincFixedOut_interpolator_len st) in *.
  set (r := SincFixedOut_resample_ratio st) in *.
  set (N := SincFixedOut_needed_input_size st) in *.
  set (F := SincFixedOut_current_buffer_fill st) in *.
  set (l0 := SincFixedOut_last_index st) in *.
  assert (Hr0 : r <> 0) by lra.
  set (t := / r) in *.
  assert (Ht : 0 < t) by (apply Rinv_0_lt_compat; exact Wr).
  assert (HC1 : 1 <= IZR Cc) by (apply IZR_le; lia).
  assert (HCm : IZR Cc <= IZR Cm) by (apply IZR_le; lia).
  assert (HL8 : 8 <= IZR L) by (apply IZR_le; lia).
  assert (HCt : 0 < IZR Cc * t) by nra.
  assert (HCmt : IZR Cc * t <= IZR Cm * t) by nra.
  assert (HNlo : IZR N >= l0 + IZR Cc * t + IZR L) by (rewrite Wnd; generalize (Zceil_ub (l0 + IZR Cc * t + IZR L)); lra).
  assert (HNhi : IZR N < l0 + IZR Cc * t + IZR L + 1) by (rewrite Wnd; generalize (Zceil_lb (l0 + IZR Cc * t + IZR L)); lra).
  assert (HN0 : (0 <= N)%Z) by (assert (-1 < N)%Z by (apply lt_IZR; change (IZR (-1)) with (-1); lra); lia).
  assert (HNmax : (N <= Zceil (IZR Cm * t) + L)%Z).
  { rewrite Wnd. replace (l0 + IZR Cc * t + IZR L) with (IZR Cc * t + l0 + IZR L) by ring.
    apply Zceil_glb. rewrite plus_IZR. generalize (Zceil_ub (IZR Cm * t)). lra. }
  (* --- the argument check *)
  unfold a_precheck in Hpre. unfold pib. fold st in Hpre |- *.
  set (pro := match m with Some mk => _ | None => _ end) in *.
  destruct pro as [mask| | | |] eqn:Epro; cbn [bind] in Hpre; try discriminate Hpre.
  cbn [bind].
  destruct (validate_buffers (map zlen wi) (map zlen wo) mask (a_val_channels A st) (a_val_min_in A st) (a_val_min_out A st))
    as [[]| | | |] eqn:Eval; cbn [bind] in Hpre; try discriminate Hpre.
  cbn [bind]. clear Hpre.
  apply validate_ok_iff in Eval. destruct Eval as (Vi & Vm & Vil & Vo & Vol).
  cbn [a_val_channels a_val_min_in a_val_min_out so_arch] in Vi, Vm, Vil, Vo, Vol.
  unfold so_val_channels, so_val_min_in, so_val_min_out in Vi, Vm, Vil, Vo, Vol.
  fold Cc N in Vil, Vol.
  (* --- history shift *)
  cbn [a_shift_lo a_shift_hi a_shift_dst so_arch]. unfold so_shift_lo, so_shift_hi, so_shift_dst, so_sinc_len. fold st F L.
  destruct (shift_all_ok blen F (F + 2 * L) 0 ltac:(lia) ltac:(lia) ltac:(lia) ltac:(lia) ltac:(lia) (as_buf s) Wb)
    as (bufs1 & E1 & L1 & N1).
  rewrite E1. cbn [bind].
  (* --- load the new frames *)
  cbn [a_pre so_arch]. unfold so_fill_next. fold N.
  set (st1 := set_SincFixedOut_current_buffer_fill st N).
  assert (P1 : SincFixedOut_chunk_size st1 = Cc /\ SincFixedOut_interpolator_len st1 = L /\
               SincFixedOut_resample_ratio st1 = r /\ SincFixedOut_target_ratio st1 = r /\
               SincFixedOut_last_index st1 = l0 /\ SincFixedOut_needed_input_size st1 = N /\
               SincFixedOut_interpolator_nbr_sincs st1 = SincFixedOut_interpolator_nbr_sincs st).
  { unfold st1, set_SincFixedOut_current_buffer_fill. cbn. repeat split; try reflexivity. exact Wt. }
  destruct P1 as (P1c & P1l & P1r & P1t & P1i & P1N & P1n).
  assert (Hfill : exists bufs2, fill_all A st1 bufs1 wi mask = Ok bufs2 /\ all_len blen bufs2 /\ length bufs2 = length bufs1).
  { apply (fill_all_ok A st1 blen);
      cbn [a_fill_lo a_fill_hi a_fill_src_hi so_arch]; unfold so_fill_lo, so_fill_hi, so_fill_src_hi, so_sinc_len;
      rewrite ?P1N, ?P1l; try lia; try assumption.
    - unfold zlen in Vi. rewrite map_length in Vi. lia.
    - unfold zlen in Vm. lia.
    - intros k w Hk Hm. apply (Vil k (zlen w)); [rewrite nth_error_map, Hk; reflexivity | exact Hm]. }
  destruct Hfill as (bufs2 & E2 & L2 & N2).
  rewrite E2. cbn [bind].
  (* --- the stepping loop: exactly chunk frames *)
  cbn [a_t0 a_tend a_inc a_idx0 a_fixed_in a_bound so_arch].
  assert (Hb : sinc_pick (se_type env) (@so_cubic_loop_bound CR) (@so_quadratic_loop_bound CR) (@so_linear_loop_bound CR)
                         (@so_nearest_loop_bound CR) st1 = Cc) by (destruct (se_type env); exact P1c).
  rewrite Hb.
  assert (Ht0 : @so_t_ratio CR st1 = t).
  { unfold so_t_ratio. rewrite P1r. cbv [c_lit cdiv CR cnum]. unfold t. field. exact Hr0. }
  assert (Ht1 : @so_t_ratio_end CR st1 = t).
  { unfold so_t_ratio_end. rewrite P1t. cbv [c_lit cdiv CR cnum]. unfold t. field. exact Hr0. }
  rewrite Ht0, Ht1.
  assert (Hinc : @so_t_ratio_increment CR st1 t t = 0).
  { unfold so_t_ratio_increment. cbv [cdiv csub CR cnum]. unfold Rdiv. rewrite Rminus_diag_eq by reflexivity. ring. }
  rewrite Hinc.
  assert (Hloop : forall n t0 inc0 i0,
            @positions_out CR (a_tstep A st1) (a_istep A st1) n t0 inc0 i0 = @positions_out CR Rplus Rplus n t0 inc0 i0).
  { intros. cbn [a_tstep a_istep so_arch]. destruct (se_type env); reflexivity. }
  rewrite Hloop. assert (Hidx : @so_idx0 CR st1 = l0) by (unfold so_idx0; exact P1i). rewrite Hidx.
  rewrite positions_out_spec. cbn [bind].
  set (ps := map (pos_at l0 t 0) (seq 1 (Z.to_nat Cc))).
  assert (Hpos : forall k, pos_at l0 t 0 k = l0 + INR k * t) by (intros k; unfold pos_at; lra).
  assert (Hlen : length ps = Z.to_nat Cc) by (unfold ps; rewrite map_length, seq_length; reflexivity).
  (* every instant: the kernel windows satisfy the asserts *)
  assert (Hsamp : samples_ok A st1 blen ps).
  { intros b p Hbl Hp. unfold ps in Hp. apply in_map_iff in Hp. destruct Hp as (k & <- & Hk). apply in_seq in Hk.
    cbn [a_sample so_arch]. rewrite Hpos. unfold so_sinc_len, so_oversampling_factor. rewrite P1l, P1n.
    assert (K1 : INR k <= IZR Cc) by (rewrite INR_IZR_INZ; apply IZR_le; lia).
    assert (K0 : 1 <= INR k) by (change 1 with (INR 1); apply le_INR; lia).
    assert (Fb : (- (L + 1) <= Zfloor (l0 + INR k * t) < Zceil (IZR Cm * t) - 3)%Z).
    { apply Zfloor_bounds.
      - rewrite opp_IZR, plus_IZR. change (IZR 1) with 1. nra.
      - rewrite minus_IZR. change (IZR 3) with 3. generalize (Zceil_ub (IZR Cm * t)). nra. }
    match goal with |- exists v, sinc_sample env L ?nb ?kidx ?fr b ?i = Ok v =>
      assert (Hk' : kidx = (fun i0 : Z => (i0 + 2 * L)%Z)) end.
    { destruct (se_type env) eqn:Et; cbn; rewrite ?Et; reflexivity. }
    rewrite Hk'. apply sinc_sample_ok_R; [exact Wnb | lia | rewrite Hbl; lia]. }
  destruct (outputs_all_ok A st1 blen ps Hsamp bufs2 wo mask L2) as (outs & Eo & No & Po).
  { intros k o Hk Hm. specialize (Vol k (zlen o)). rewrite nth_error_map, Hk in Vol. specialize (Vol eq_refl Hm).
    unfold zlen in Vol. change (@length (@cnum CR) ps) with (@length R ps). rewrite Hlen. lia. }
  rewrite Eo. cbn [bind].
  eexists _, outs. split.
  { reflexivity. }
  (* --- the new state *)
  set (last := pos_at l0 t 0 (Z.to_nat Cc)).
  assert (Elast : last = l0 + IZR Cc * t).
  { unfold last. rewrite Hpos, INR_IZR_INZ, Z2Nat.id by lia. reflexivity. }
  set (l1 := last - IZR N).
  assert (Hl1 : - IZR L - 1 < l1 <= - IZR L) by (unfold l1; rewrite Elast; lra).
  cbn [a_finish so_arch].
  set (st2 := set_SincFixedOut_resample_ratio (set_SincFixedOut_last_index st1 (so_last_index_next st1 last))
                 (so_resample_ratio_next (set_SincFixedOut_last_index st1 (so_last_index_next st1 last)))).
  assert (P2 : SincFixedOut_chunk_size st2 = Cc /\ SincFixedOut_max_chunk_size st2 = Cm /\ SincFixedOut_interpolator_len st2 = L /\
               SincFixedOut_resample_ratio st2 = r /\ SincFixedOut_target_ratio st2 = r /\
               SincFixedOut_last_index st2 = l1 /\ SincFixedOut_current_buffer_fill st2 = N /\
               SincFixedOut_interpolator_nbr_sincs st2 = SincFixedOut_interpolator_nbr_sincs st /\
               SincFixedOut_nbr_channels st2 = SincFixedOut_nbr_channels st).
  { unfold st2, so_last_index_next, so_resample_ratio_next, st1, set_SincFixedOut_resample_ratio, set_SincFixedOut_last_index,
      set_SincFixedOut_current_buffer_fill.
    cbn [SincFixedOut_nbr_channels SincFixedOut_chunk_size SincFixedOut_max_chunk_size SincFixedOut_needed_input_size
         SincFixedOut_last_index SincFixedOut_current_buffer_fill SincFixedOut_resample_ratio SincFixedOut_resample_ratio_original
         SincFixedOut_target_ratio SincFixedOut_max_relative_ratio SincFixedOut_interpolator_len SincFixedOut_interpolator_nbr_sincs
         csub c_of_Z CR].
    fold st. repeat split; try reflexivity; exact Wt. }
  destruct P2 as (P2c & P2m & P2l & P2r & P2t & P2i & P2f & P2n & P2ch).
  assert (HN1 : @so_update_needed_len CR st2 = Zceil (l1 + IZR Cc * t + IZR L)).
  { rewrite so_update_needed_R by (rewrite ?P2t, ?P2r; try exact Wr; reflexivity).
    rewrite P2i, P2c, P2r, P2l. fold t.
    apply Z.max_r. assert (-1 < Zceil (l1 + IZR Cc * t + IZR L))%Z; [|lia]. apply lt_IZR.
    generalize (Zceil_ub (l1 + IZR Cc * t + IZR L)). change (IZR (-1)) with (-1). lra. }
  unfold uC, uCmax, unch, uratio, uli, uL, unbr, ufill, uneeded. cbn [as_ctl as_buf as_mask].
  unfold set_SincFixedOut_needed_input_size.
  cbn [SincFixedOut_nbr_channels SincFixedOut_chunk_size SincFixedOut_max_chunk_size SincFixedOut_needed_input_size
       SincFixedOut_last_index SincFixedOut_current_buffer_fill SincFixedOut_resample_ratio SincFixedOut_resample_ratio_original
       SincFixedOut_target_ratio SincFixedOut_max_relative_ratio SincFixedOut_interpolator_len SincFixedOut_interpolator_nbr_sincs].
  fold st2. rewrite ?P2c, ?P2m, ?P2l, ?P2r, ?P2t, ?P2i, ?P2f, ?P2n, ?P2ch, HN1. fold st Cc Cm L r t.
  split; [constructor|]; unfold uC, uCmax, unch, uratio, uli, uL, unbr, ufill, uneeded; cbn [as_ctl as_buf as_mask];
    cbn [SincFixedOut_nbr_channels SincFixedOut_chunk_size SincFixedOut_max_chunk_size SincFixedOut_needed_input_size
         SincFixedOut_last_index SincFixedOut_current_buffer_fill SincFixedOut_resample_ratio SincFixedOut_resample_ratio_original
         SincFixedOut_target_ratio SincFixedOut_max_relative_ratio SincFixedOut_interpolator_len SincFixedOut_interpolator_nbr_sincs];
    rewrite ?P2c, ?P2m, ?P2l, ?P2r, ?P2t, ?P2i, ?P2f, ?P2n, ?P2ch; fold st Cc Cm L r t; try assumption; try lia; try reflexivity.
  - unfold zlen in Vm. lia.
  - lra.
  - repeat split; try lia; try reflexivity. unfold l1. rewrite Elast. reflexivity.
Qed.

End Call.

(** * Histories: valid calls interleaved with set_chunk_size (constant ratio) *)
Section History.
Variable env : sinc_env.
Notation A := (@so_arch CR SR env).
Notation ST := (@astate CR SR SO).

Inductive so_op : Type :=
| OCall (wi wo : list (list R)) (m : option (list bool))
| OChunk (n : Z).

(* set_chunk_size: rejected (state unchanged) or chunk_size := n and the needed input size recomputed *)
Definition so_set_chunk (s : ST) (n : Z) : ST :=
  if @so_set_chunk_bad CR (as_ctl s) n then s
  else let st1 := set_SincFixedOut_chunk_size (as_ctl s) n in
       mk_astate (set_SincFixedOut_needed_input_size st1 (so_update_needed_len st1)) (as_buf s) (as_mask s).

Fixpoint so_run (s : ST) (ops : list so_op) : res (ST * Z * Z) :=
  match ops with
  | [] => Ok (s, 0%Z, 0%Z)
  | OChunk n :: rest => so_run (so_set_chunk s n) rest
  | OCall wi wo m :: rest =>
      do _ <- a_precheck A s wi wo m;
      do x <- pib A s wi wo m;
      let '(s', (a, b), _) := x in
      do y <- so_run s' rest;
      let '(s'', nin, nout) := y in
      Ok (s'', (a + nin)%Z, (b + nout)%Z)
  end.

Lemma so_set_chunk_wf blen (s : ST) n : so_wf env blen s -> (0 <= n)%Z ->
  so_wf env blen (so_set_chunk s n) /\ uratio (so_set_chunk s n) = uratio s /\ uli (so_set_chunk s n) = uli s /\
  uL (so_set_chunk s n) = uL s.
Proof.
  intros W Hn. unfold so_set_chunk, so_set_chunk_bad.
  destruct (Z.gtb_spec n (SincFixedOut_max_chunk_size (as_ctl s))); destruct (Z.eqb_spec n 0); cbn [orb];
    try (split; [exact W | repeat split; reflexivity]).
  destruct W as [WC Wn Wlb Wlm Wb Wr Wt WL Wnb Wli Wnd Wfl Wbl].
  unfold uC, uCmax, unch, uratio, uli, uL, unbr, ufill, uneeded in *.
  set (st := as_ctl s) in *.
  set (st1 := set_SincFixedOut_chunk_size st n).
  assert (P : SincFixedOut_chunk_size st1 = n /\ SincFixedOut_max_chunk_size st1 = SincFixedOut_max_chunk_size st /\
              SincFixedOut_interpolator_len st1 = SincFixedOut_interpolator_len st /\
              SincFixedOut_resample_ratio st1 = SincFixedOut_resample_ratio st /\
              SincFixedOut_target_ratio st1 = SincFixedOut_resample_ratio st /\
              SincFixedOut_last_index st1 = SincFixedOut_last_index st).
  { unfold st1, set_SincFixedOut_chunk_size. cbn. repeat split; try reflexivity. exact Wt. }
  destruct P as (Pc & Pm & Pl & Pr & Pt & Pi).
  set (r := SincFixedOut_resample_ratio st) in *. set (t := / r).
  assert (Ht : 0 < t) by (apply Rinv_0_lt_compat; exact Wr).
  assert (Hn1 : 1 <= IZR n) by (apply IZR_le; lia).
  assert (HL8 : 8 <= IZR (SincFixedOut_interpolator_len st)) by (apply IZR_le; lia).
  assert (HN : @so_update_needed_len CR st1 = Zceil (SincFixedOut_last_index st + IZR n * t + IZR (SincFixedOut_interpolator_len st))).
  { rewrite so_update_needed_R by (rewrite ?Pt, ?Pr; try exact Wr; reflexivity).
    rewrite Pi, Pc, Pr, Pl. fold r t.
    apply Z.max_r. assert (-1 < Zceil (SincFixedOut_last_index st + IZR n * t + IZR (SincFixedOut_interpolator_len st)))%Z; [|lia].
    apply lt_IZR. generalize (Zceil_ub (SincFixedOut_last_index st + IZR n * t + IZR (SincFixedOut_interpolator_len st))).
    change (IZR (-1)) with (-1). nra. }
  split; [|repeat split; reflexivity].
  constructor; unfold uC, uCmax, unch, uratio, uli, uL, unbr, ufill, uneeded; cbn [as_ctl as_buf as_mask];
    unfold set_SincFixedOut_needed_input_size;
    cbn [SincFixedOut_nbr_channels SincFixedOut_chunk_size SincFixedOut_max_chunk_size SincFixedOut_needed_input_size
         SincFixedOut_last_index SincFixedOut_current_buffer_fill SincFixedOut_resample_ratio SincFixedOut_resample_ratio_original
         SincFixedOut_target_ratio SincFixedOut_max_relative_ratio SincFixedOut_interpolator_len SincFixedOut_interpolator_nbr_sincs];
    fold st1; rewrite ?Pc, ?Pm, ?Pl, ?Pr, ?Pt, ?Pi, ?HN; fold st r t; try assumption; try lia; try reflexivity.
Qed.

Theorem so_history_const_R blen : forall ops (s : ST), so_wf env blen s ->
  (forall n, In (OChunk n) ops -> (0 <= n)%Z) ->
  match so_run s ops with
  | Ok (s', nin, nout) =>
      so_wf env blen s' /\ uratio s' = uratio s /\ uL s' = uL s /\ (0 <= nin)%Z /\ (0 <= nout)%Z /\
      uli s' - uli s = IZR nout * / uratio s - IZR nin
  | Err _ => True
  | Panic _ | UB _ | Diverge => False
  end.
Proof.
  induction ops as [|[wi wo m|n] rest IH]; intros s W Hops; cbn [so_run].
  - split; [exact W|]. repeat split; try lia. change (IZR 0) with 0. lra.
  - destruct (a_precheck A s wi wo m) as [[]| | | |] eqn:Ep; cbn [bind]; try exact I.
    + destruct (so_call_const_R env blen s wi wo m W Ep) as (s' & outs & E & W' & Hli & HC & HCm & Hnch & Hr & HL & HN).
      rewrite E. cbn [bind].
      specialize (IH s' W' (fun k Hk => Hops k (or_intror Hk))).
      destruct (so_run s' rest) as [[[s'' nin] nout]| | | |]; cbn [bind]; try exact IH.
      destruct IH as (W'' & Hr'' & HL'' & Hin & Hout & Hli'').
      destruct W as [WC _ _ _ _ _ _ _ _ _ _ _ _].
      split; [exact W''|]. split; [congruence|]. split; [congruence|]. split; [lia|]. split; [unfold uC in *; lia|].
      rewrite !plus_IZR. rewrite Hr in Hli''. unfold uC in *. lra.
    + destruct (a_precheck_total A s wi wo m) as [H|[e H]]; rewrite H in Ep; discriminate.
    + destruct (a_precheck_total A s wi wo m) as [H|[e H]]; rewrite H in Ep; discriminate.
    + destruct (a_precheck_total A s wi wo m) as [H|[e H]]; rewrite H in Ep; discriminate.
  - destruct (so_set_chunk_wf blen s n W (Hops n (or_introl eq_refl))) as (W' & Hr & Hl & HL).
    specialize (IH (so_set_chunk s n) W' (fun k Hk => Hops k (or_intror Hk))).
    destruct (so_run (so_set_chunk s n) rest) as [[[s'' nin] nout]| | | |]; try exact IH.
    rewrite Hr, Hl, HL in IH. exact IH.
Qed.

(** frame accounting without drift (C07): |nout - r*nin| is bounded by a constant *)
Corollary so_accounting_const_R blen ops (s s' : ST) nin nout :
  so_wf env blen s -> (forall n, In (OChunk n) ops -> (0 <= n)%Z) -> so_run s ops = Ok (s', nin, nout) ->
  Rabs (IZR nout - uratio s * IZR nin) <= uratio s * (IZR (uL s) + 1).
Proof.
  intros W Hops E. generalize (so_history_const_R blen ops s W Hops). rewrite E.
  intros (W' & Hr & HL & _ & _ & Hli).
  destruct W as [_ _ _ _ _ Wr _ WL _ Wl _ _ _]. destruct W' as [_ _ _ _ _ _ _ _ _ Wl' _ _ _].
  rewrite HL in Wl'. set (r := uratio s) in *. set (t := / r) in *. set (L := IZR (uL s)) in *.
  assert (Ht : 0 < t) by (apply Rinv_0_lt_compat; exact Wr).
  assert (Htr : r * t = 1) by (unfold t; apply Rinv_r; lra).
  assert (HL8 : 8 <= L) by (apply IZR_le; exact WL).
  assert (Hd : Rabs (IZR nout * t - IZR nin) <= L + 1) by (rewrite <- Hli; apply Rabs_le; lra).
  replace (IZR nout - r * IZR nin) with (r * (IZR nout * t - IZR nin)) by (rewrite Rmult_minus_distr_l, <- Rmult_assoc, (Rmult_comm r (IZR nout)), Rmult_assoc, Htr; ring).
  rewrite Rabs_mult, (Rabs_pos_eq r) by lra.
  apply Rmult_le_compat_l; lra.
Qed.

End History.

(** * Histories with non-ramped ratio changes and set_chunk_size between the calls

    As for FastFixedOut (FastOutR, Section Steps): a non-ramped [set_resample_ratio] recomputes needed_input_size from
    the carried position, so every accepted change is safe as long as the buffer has room, and the constructor
    sizes the buffer for the smallest accepted ratio (so_ctor_wfe_R in SincCtorR). *)
Section Steps.
Variable env : sinc_env.
Notation A := (@so_arch CR SR env).
Notation ST := (@astate CR SR SO).

Record so_wfe (blen : Z) (s : ST) : Prop := {
  ue_wf : so_wf env blen s;
  ue_cap : forall r2, @so_set_ratio_accept CR (as_ctl s) r2 = true ->
           0 < r2 /\ (Zceil (IZR (uCmax s) * / r2) + 3 * uL s <= blen)%Z;
}.

Lemma so_set_ratio_wfe blen (s s1 : ST) r2 :
  so_wfe blen s -> @so_set_ratio CR SR s r2 false = (s1, Ok tt) ->
  so_wfe blen s1 /\ uratio s1 = r2 /\ uC s1 = uC s /\ uCmax s1 = uCmax s /\ uL s1 = uL s /\ uli s1 = uli s.
Proof.
  intros [[WC Wn Wlb Wlm Wb Wr Wt WL Wnb Wli Wnd Wfl Wbl] Wcap] E. unfold so_set_ratio in E.
  destruct (so_set_ratio_accept (as_ctl s) r2) eqn:Ea; [|discriminate E].
  destruct (Wcap r2 Ea) as [Hr2 Hb2].
  injection E as <-.
  set (st2 := set_SincFixedOut_target_ratio (set_SincFixedOut_resample_ratio (as_ctl s) r2) r2).
  assert (P : SincFixedOut_last_index st2 = uli s /\ SincFixedOut_chunk_size st2 = uC s /\ SincFixedOut_resample_ratio st2 = r2 /\
              SincFixedOut_target_ratio st2 = r2 /\ SincFixedOut_interpolator_len st2 = uL s)
    by (destruct s as [st ? ?]; destruct st; repeat split; reflexivity).
  destruct P as (Pi & Pc & Pr & Pt & Pl).
  assert (Hn : @so_update_needed_len CR st2 = Zceil (uli s + IZR (uC s) * / r2 + IZR (uL s))).
  { rewrite so_update_needed_R by (rewrite ?Pt, ?Pr; try exact Hr2; reflexivity).
    rewrite Pi, Pc, Pr, Pl. apply Z.max_r.
    assert (Ht : 0 < / r2) by (apply Rinv_0_lt_compat; exact Hr2).
    assert (HC1 : 1 <= IZR (uC s)) by (apply IZR_le; lia).
    assert (-1 < Zceil (uli s + IZR (uC s) * / r2 + IZR (uL s)))%Z; [|lia]. apply lt_IZR.
    generalize (Zceil_ub (uli s + IZR (uC s) * / r2 + IZR (uL s))). change (IZR (-1)) with (-1). nra. }
  unfold uC, uCmax, unch, uratio, uli, uL, unbr, ufill, uneeded in *. fold st2.
  destruct s as [st bufs mask]. destruct st. cbn in *.
  split; [|repeat split; reflexivity].
  constructor; [constructor; cbn; try assumption; try reflexivity; try lia | cbn; exact Wcap].
Qed.

Lemma so_set_chunk_wfe blen (s : ST) n : so_wfe blen s -> (0 <= n)%Z ->
  so_wfe blen (so_set_chunk s n) /\ uCmax (so_set_chunk s n) = uCmax s.
Proof.
  intros [W Wcap] Hn. destruct (so_set_chunk_wf env blen s n W Hn) as (W' & _ & _ & HL).
  assert (HCm : uCmax (so_set_chunk s n) = uCmax s).
  { unfold so_set_chunk. destruct (so_set_chunk_bad _ _); [reflexivity|]. unfold uCmax. destruct s as [st ? ?]; destruct st; reflexivity. }
  split; [|exact HCm]. constructor; [exact W'|].
  intros r2 Ha. rewrite HCm, HL. apply Wcap. rewrite <- Ha.
  unfold so_set_chunk. destruct (so_set_chunk_bad _ _); [reflexivity|]. destruct s as [st ? ?]; destruct st; reflexivity.
Qed.

Theorem so_call_wfe_R blen (s : ST) wi wo m :
  so_wfe blen s -> a_precheck A s wi wo m = Ok tt ->
  exists (s' : ST) outs,
    pib A s wi wo m = Ok (s', (uneeded s, uC s), outs) /\ so_wfe blen s' /\
    uli s' = uli s + IZR (uC s) * / uratio s - IZR (uneeded s) /\
    uC s' = uC s /\ uCmax s' = uCmax s /\ uratio s' = uratio s /\ uL s' = uL s /\ (0 <= uneeded s)%Z.
Proof.
  intros [W Wcap] Hpre.
  destruct (so_call_const_R env blen s wi wo m W Hpre) as (s' & outs & E & W' & Hli & HC & HCm & Hnch & Hr & HL & HN).
  exists s', outs. split; [exact E|]. split; [|repeat split; assumption].
  constructor; [exact W'|].
  destruct (pib_ctl A s s' wi wo m _ _ E) as (last & Ec).
  intros r2 Ha. rewrite HCm, HL. apply Wcap. rewrite <- Ha. unfold so_set_ratio_accept. rewrite Ec.
  destruct (as_ctl s). reflexivity.
Qed.

Inductive so_op2 :=
| U2Call (wi wo : list (list R)) (m : option (list bool))
| U2Chunk (n : Z)
| U2Step (r2 : R).

(* the run records, for every call, (frames consumed, frames produced, input_frames_next() and chunk_size before it) *)
Fixpoint so_run_ops (s : ST) (ops : list so_op2) : res (ST * list (Z * Z * Z * Z)) :=
  match ops with
  | [] => Ok (s, [])
  | U2Call wi wo m :: rest =>
      do _ <- a_precheck A s wi wo m;
      do x <- pib A s wi wo m;
      let '(s', (a, b), _) := x in
      do y <- so_run_ops s' rest;
      let '(s'', log) := y in
      Ok (s'', (a, b, uneeded s, uC s) :: log)
  | U2Chunk n :: rest => so_run_ops (so_set_chunk s n) rest
  | U2Step r2 :: rest =>
      match @so_set_ratio CR SR s r2 false with
      | (s1, Ok tt) => so_run_ops s1 rest
      | (_, Err e) => Err e
      | (_, Panic e) => Panic e | (_, UB e) => UB e | (_, Diverge) => Diverge
      end
  end.

Definition ucall_ok (e : Z * Z * Z * Z) : Prop :=
  let '(a, b, nxt, c) := e in a = nxt /\ b = c /\ (0 <= a)%Z.

(** Every history of well-formed calls, set_chunk_size calls and non-ramped ratio changes -- any the setter accepts --
    runs without a failed assert, an out-of-range slice or non-termination; every call consumes exactly
    input_frames_next() frames and produces exactly the current chunk_size. *)
Theorem so_history_steps_R blen : forall ops (s : ST), so_wfe blen s ->
  (forall n, In (U2Chunk n) ops -> (0 <= n)%Z) ->
  match so_run_ops s ops with
  | Ok (s', log) => so_wfe blen s' /\ uCmax s' = uCmax s /\ Forall ucall_ok log
  | Err _ => True
  | Panic _ | UB _ | Diverge => False
  end.
Proof.
  induction ops as [|[wi wo m|k|r2] rest IH]; intros s W Hops; cbn [so_run_ops].
  - split; [exact W|]. split; [reflexivity|constructor].
  - destruct (a_precheck A s wi wo m) as [[]| | | |] eqn:Ep; cbn [bind]; try exact I.
    + destruct (so_call_wfe_R blen s wi wo m W Ep) as (s' & outs & E & W' & Hli & HC & HCm & Hr & HL & HN).
      rewrite E. cbn [bind]. specialize (IH s' W' (fun k Hk => Hops k (or_intror Hk))).
      destruct (so_run_ops s' rest) as [[s'' log]| | | |]; cbn [bind]; try exact IH.
      destruct IH as (W'' & HC'' & Hlog). split; [exact W''|]. split; [congruence|].
      constructor; [cbn; repeat split; try reflexivity; exact HN | exact Hlog].
    + destruct (a_precheck_total A s wi wo m) as [H|[e H]]; rewrite H in Ep; discriminate.
    + destruct (a_precheck_total A s wi wo m) as [H|[e H]]; rewrite H in Ep; discriminate.
    + destruct (a_precheck_total A s wi wo m) as [H|[e H]]; rewrite H in Ep; discriminate.
  - destruct (so_set_chunk_wfe blen s k W (Hops k (or_introl eq_refl))) as (W1 & HC1).
    specialize (IH _ W1 (fun j Hj => Hops j (or_intror Hj))).
    destruct (so_run_ops (so_set_chunk s k) rest) as [[s'' log]| | | |]; try exact IH.
    destruct IH as (W'' & HC'' & Hlog). split; [exact W''|]. split; [congruence|exact Hlog].
  - destruct (@so_set_ratio CR SR s r2 false) as [s1 o] eqn:Es.
    assert (Ho : o = Ok tt \/ exists e, o = Err e).
    { unfold so_set_ratio in Es. destruct (so_set_ratio_accept (as_ctl s) r2); injection Es as <- <-; [left; reflexivity | right; eexists; reflexivity]. }
    destruct Ho as [-> | [e ->]]; [|exact I].
    destruct (so_set_ratio_wfe blen s s1 r2 W Es) as (W1 & Hr1 & HC1 & HCm1 & _).
    specialize (IH s1 W1 (fun j Hj => Hops j (or_intror Hj))).
    destruct (so_run_ops s1 rest) as [[s'' log]| | | |]; try exact IH.
    destruct IH as (W'' & HC'' & Hlog). split; [exact W''|]. split; [congruence|exact Hlog].
Qed.

End Steps.
