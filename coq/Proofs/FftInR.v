(** FftFixedIn (synchro.rs) in ideal arithmetic (the f32 quotient of nbr_chunks_ready read as the real
    quotient): under the invariant established by the constructor and the length contract of the
    spectral core, every well-formed call returns Ok, consumes chunk_size_in frames and produces
    ((saved + chunk) / fft_size_in) * fft_size_out frames, keeps (saved + chunk) mod fft_size_in frames
    parked, and keeps the invariant.                                                           *)

From Coq Require Import ZArith Reals List Bool Lra Lia.
From Flocq Require Import Core.
From Rubato.Model Require Import Num Reals Base Validate Fft.
From Rubato.Gen Require Import SynchroGen.
From Rubato.Proofs Require Import ShapeP ValidateP MalformedP FftInOutP ChunksP.
Import ListNotations.
Local Open Scope Z_scope.

(** a per-channel pass: active channels are transformed with a relation R, inactive ones are kept *)
Lemma per_channel_rel {C : CNum} {X} (f : X -> res X) (R : X -> X -> Prop) : (forall x, R x x) ->
  forall xs mask, length mask = length xs ->
  (forall k x, nth_error xs k = Some x -> nth_error mask k = Some true -> exists y, f x = Ok y /\ R x y) ->
  exists ys, per_channel f xs mask = Ok ys /\ Forall2 R xs ys.
Proof.
  intros Hrefl xs. induction xs as [|x xs IH]; intros mask Hl H.
  - exists []. split; [reflexivity|constructor].
  - destruct mask as [|m ms]; [discriminate|]. cbn [per_channel].
    destruct (IH ms ltac:(cbn in Hl; lia)) as (ys & E & F).
    { intros k y Hk Hm. apply (H (Datatypes.S k) y); assumption. }
    destruct m.
    + destruct (H O x eq_refl eq_refl) as (y & Ey & Ry). rewrite Ey. cbn [bind]. rewrite E. cbn [bind].
      eexists. split; [reflexivity|]. constructor; assumption.
    + cbn [bind]. rewrite E. cbn [bind]. eexists. split; [reflexivity|]. constructor; [apply Hrefl|assumption].
Qed.

Lemma F2_length {A B} (R : A -> B -> Prop) l l' : Forall2 R l l' -> length l' = length l.
Proof. induction 1; cbn; congruence. Qed.

Lemma F2_nth_r {A B} (R : A -> B -> Prop) l l' : Forall2 R l l' -> forall k y, nth_error l' k = Some y ->
  exists x, nth_error l k = Some x /\ R x y.
Proof.
  induction 1 as [|x y l l' Hxy _ IH]; intros k z Hk; [destruct k; discriminate|].
  destruct k; cbn in *; [injection Hk as <-; eauto | apply IH; exact Hk].
Qed.

Lemma zip3_length {A B D} (a : list A) (b : list B) (c : list D) :
  length a = length b -> length c = length b -> length (zip3 a b c) = length b.
Proof. revert b c; induction a as [|x a IH]; intros [|y b] [|z c] H1 H2; cbn in *; try lia. f_equal. apply IH; lia. Qed.

Lemma zip3_nth {A B D} (a : list A) (b : list B) (c : list D) k x y z :
  nth_error (zip3 a b c) k = Some (x, y, z) -> nth_error a k = Some x /\ nth_error b k = Some y /\ nth_error c k = Some z.
Proof.
  revert b c k; induction a as [|x0 a IH]; intros [|y0 b] [|z0 c] k H; cbn in H; try (destruct k; discriminate).
  destruct k; cbn in *; [injection H as -> -> ->; repeat split | apply IH; exact H].
Qed.

Lemma combine_nth {A B} (a : list A) (b : list B) k x y :
  nth_error (combine a b) k = Some (x, y) -> nth_error a k = Some x /\ nth_error b k = Some y.
Proof.
  revert b k; induction a as [|x0 a IH]; intros [|y0 b] k H; cbn in H; try (destruct k; discriminate).
  destruct k; cbn in *; [injection H as -> ->; split; reflexivity | apply IH; exact H].
Qed.

Lemma overwrite_length {A} (d s : list A) : length (overwrite d s) = length d.
Proof. revert s; induction d as [|x d IH]; intros [|y s]; cbn; auto. Qed.

Lemma concat_zlen_map {A} (a b : list (list A)) : map (@zlen A) a = map (@zlen A) b -> zlen (concat a) = zlen (concat b).
Proof.
  revert b; induction a as [|x a IH]; intros [|y b] H; try discriminate; [reflexivity|].
  cbn [map] in H. injection H as H1 H2. cbn [concat]. unfold zlen in *. rewrite !app_length. specialize (IH b H2). lia.
Qed.

Section XI.
Variable unit_fn : list (@snum CR SR) -> list (@snum CR SR).
Notation ST := (@fstate CR SR (@FftFixedIn)).

Definition ifin (s : ST) : Z := FftFixedIn_fft_size_in (fs_ctl s).
Definition ifout (s : ST) : Z := FftFixedIn_fft_size_out (fs_ctl s).
Definition iC (s : ST) : Z := FftFixedIn_chunk_size_in (fs_ctl s).
Definition inch (s : ST) : Z := FftFixedIn_nbr_channels (fs_ctl s).
Definition isaved (s : ST) : Z := FftFixedIn_saved_frames (fs_ctl s).

Record xi_wf (s : ST) : Prop := {
  iw_fin : 1 <= ifin s;
  iw_fout : 1 <= ifout s;
  iw_C : 1 <= iC s;
  iw_n : 0 <= inch s;
  iw_saved : 0 <= isaved s < ifin s;
  iw_bufn : length (fs_bufs s) = Z.to_nat (inch s);
  iw_bufs : Forall (fun b => zlen b = iC s + ifin s) (fs_bufs s);
  iw_ovn : length (fs_overlaps s) = Z.to_nat (inch s);
  iw_ov : Forall (fun o => zlen o = ifout s) (fs_overlaps s);
  iw_mask : length (fs_mask s) = Z.to_nat (inch s);
  iw_unit : forall w, zlen w = ifin s -> zlen (unit_fn w) = 2 * ifout s;
}.

(** the f32 quotient, read in ideal arithmetic, is the integer quotient *)
Lemma chunks_ready_R (st : @FftFixedIn) next : 1 <= FftFixedIn_fft_size_in st -> 0 <= next ->
  @xi_nbr_chunks_ready CR st next = next / FftFixedIn_fft_size_in st.
Proof.
  intros Hf Hn. unfold xi_nbr_chunks_ready. cbn [c32_to_usize floor32 div32 c32_of_Z CR].
  rewrite Ztrunc_IZR. rewrite Zfloor_div by lia. apply Z.max_r. apply Z.div_pos; lia.
Qed.

(** the three per-channel passes of process_into_buffer, named *)
Definition xi_f1 (sv Cc : Z) : list (@snum CR SR) * list (@snum CR SR) -> @res CR (list (@snum CR SR) * list (@snum CR SR)) :=
  fun '(wi0, ib) =>
    let sk := Z.to_nat sv in
    let window := firstn (Z.to_nat Cc) (skipn sk ib) in
    Ok (wi0, firstn sk ib ++ overwrite window wi0 ++ skipn (sk + length window) ib).

Definition xi_f2 (fin fout ready : Z) : list (@snum CR SR) * list (@snum CR SR) * list (@snum CR SR) ->
                                         @res CR (list (@snum CR SR) * list (@snum CR SR) * list (@snum CR SR)) :=
  fun '(ib, wo0, ov) =>
    if (fin =? 0) || (fout =? 0) then Panic PChunkZero else
    do r <- run_units unit_fn fin fout (firstn (Z.to_nat ready) (chunks fin ib)) (chunks fout wo0) ov;
    let '(os, ov') := r in Ok (ib, concat os, ov').

Definition xi_f3 (lo hi : Z) : list (@snum CR SR) -> @res CR (list (@snum CR SR)) :=
  fun ib => match copy_within ib lo hi 0 with None => Panic PSliceIndex | Some ib' => Ok ib' end.

Theorem xi_call_stages (s : ST) wi wo m :
  xi_wf s ->
  (let st := fs_ctl s in
   @x_precheck CR SR (xi_mask_bad st) (xi_val_channels st) (xi_val_min_in st)
              (xi_val_min_out st (xi_needed_len st (@xi_nbr_chunks_ready CR st (xi_next_saved_frames st)))) (fs_mask s) wi wo m) = Ok tt ->
  let ready := (isaved s + iC s) / ifin s in
  exists s' outs mask r1 r2,
    @xi_pib CR SR unit_fn s wi wo m = Ok (s', (iC s, ready * ifout s), outs) /\ xi_wf s' /\
    isaved s' = (isaved s + iC s) mod ifin s /\
    ifin s' = ifin s /\ ifout s' = ifout s /\ iC s' = iC s /\ inch s' = inch s /\
    @prologue CR (xi_mask_bad (fs_ctl s)) (xi_val_channels (fs_ctl s)) (fs_mask s) m = Ok mask /\
    @per_channel CR _ (xi_f1 (isaved s) (iC s)) (combine wi (fs_bufs s)) mask = Ok r1 /\
    @per_channel CR _ (xi_f2 (ifin s) (ifout s) ready) (zip3 (map snd r1) wo (fs_overlaps s)) mask = Ok r2 /\
    fs_overlaps s' = map (fun x => snd x) r2 /\ outs = map (fun x => snd (fst x)) r2 /\
    (if isaved s + iC s >? ready * ifin s
     then @per_channel CR _ (xi_f3 (ready * ifin s) (isaved s + iC s)) (map snd r1) mask = Ok (fs_bufs s')
     else fs_bufs s' = map snd r1).
Proof.
  intros W Hpre ready. cbv zeta in Hpre. unfold x_precheck in Hpre. unfold xi_pib.
  pose proof W as W0. destruct W as [Wfin Wfout WC Wn Wsv Wbn Wb Won Wo Wm Wu].
  unfold ifin, ifout, iC, inch, isaved in *.
  set (st := fs_ctl s) in *.
  set (fin := FftFixedIn_fft_size_in st) in *. set (fout := FftFixedIn_fft_size_out st) in *.
  set (Cc := FftFixedIn_chunk_size_in st) in *. set (sv := FftFixedIn_saved_frames st) in *.
  set (nch := FftFixedIn_nbr_channels st) in *.
  destruct (prologue (xi_mask_bad st) (xi_val_channels st) (fs_mask s) m) as [mask| | | |] eqn:Epro;
    cbn [bind] in Hpre |- *; try discriminate.
  unfold xi_next_saved_frames in *. fold sv Cc in Hpre |- *.
  rewrite (chunks_ready_R st (sv + Cc)) in Hpre |- * by (fold fin; lia). fold fin in Hpre |- *. fold ready in Hpre |- *.
  unfold xi_needed_len, xi_val_min_out, xi_val_channels, xi_val_min_in in Hpre |- *. fold fout Cc nch in Hpre |- *.
  destruct (validate_buffers (map zlen wi) (map zlen wo) mask nch Cc (ready * fout)) as [[]| | | |] eqn:Eval;
    cbn [bind] in Hpre |- *; try discriminate.
  apply validate_ok_iff in Eval. destruct Eval as (Vi & Vm & Vil & Vo & Vol).
  unfold zlen in Vi, Vm, Vo. rewrite map_length in Vi, Vo.
  assert (Hready : 0 <= ready) by (apply Z.div_pos; lia).
  assert (Hdm : sv + Cc = fin * ready + (sv + Cc) mod fin) by (apply Z.div_mod; lia).
  assert (Hmod : 0 <= (sv + Cc) mod fin < fin) by (apply Z.mod_pos_bound; lia).
  (* --- pass 1: copy the new samples behind the parked ones *)
  unfold xi_skip, xi_take. fold sv Cc.
  set (f1 := fun '(wi0, ib) => _).
  destruct (per_channel_rel (C:=CR) f1 (fun x y => fst y = fst x /\ zlen (snd y) = zlen (snd x)) ltac:(intros; split; reflexivity)
              (combine wi (fs_bufs s)) mask) as (r1 & E1 & F1).
  { rewrite combine_length. lia. }
  { intros k [a b] _ _. eexists. split; [reflexivity|]. cbn [fst snd]. split; [reflexivity|].
    unfold zlen. rewrite !app_length, overwrite_length, !firstn_length, !skipn_length. lia. }
  rewrite E1. cbn [bind].
  set (bufs1 := map snd r1).
  assert (Lb1 : length bufs1 = Z.to_nat nch).
  { unfold bufs1. rewrite map_length. rewrite (F2_length _ _ _ F1), combine_length. lia. }
  assert (Fb1 : Forall (fun b => zlen b = Cc + fin) bufs1).
  { unfold bufs1. apply Forall_forall. intros b Hb. apply in_map_iff in Hb. destruct Hb as ([a b'] & <- & Hin). cbn [snd].
    apply In_nth_error in Hin. destruct Hin as (k & Hk).
    destruct (F2_nth_r _ _ _ F1 k _ Hk) as ([a0 b0] & Hk0 & _ & Hz). cbn [fst snd] in Hz. rewrite Hz.
    rewrite Forall_forall in Wb. apply Wb. apply nth_error_In with (n := k). exact (proj2 (combine_nth _ _ _ _ _ Hk0)). }
  (* --- pass 2: the spectral core on every complete block *)
  unfold xi_saved_mid. set (st1 := set_FftFixedIn_saved_frames st (sv + Cc)).
  assert (P1 : FftFixedIn_fft_size_in st1 = fin /\ FftFixedIn_fft_size_out st1 = fout /\ FftFixedIn_saved_frames st1 = sv + Cc /\
               FftFixedIn_chunk_size_in st1 = Cc /\ FftFixedIn_nbr_channels st1 = nch) by (repeat split; reflexivity).
  destruct P1 as (P1i & P1o & P1s & P1c & P1n).
  unfold xi_in_chunk, xi_out_chunk, xi_take_chunks. rewrite P1i, P1o.
  set (f2 := fun '(ib, wo0, ov) => _).
  destruct (per_channel_rel (C:=CR) f2
              (fun x y => fst (fst y) = fst (fst x) /\ zlen (snd (fst y)) = zlen (snd (fst x)) /\ (zlen (snd x) = fout -> zlen (snd y) = fout))
              ltac:(intros; repeat split; auto) (zip3 bufs1 wo (fs_overlaps s)) mask) as (r2 & E2 & F2).
  { rewrite zip3_length; lia. }
  { intros k [[ib o] ov] Hk Hm.
    destruct (zip3_nth _ _ _ _ _ _ _ Hk) as (Kb & Kw & Ko).
    assert (Lib : zlen ib = Cc + fin) by (rewrite Forall_forall in Fb1; apply Fb1; eapply nth_error_In; exact Kb).
    assert (Lo : ready * fout <= zlen o) by (apply (Vol k (zlen o)); [rewrite nth_error_map, Kw; reflexivity | exact Hm]).
    assert (Lov : zlen ov = fout) by (rewrite Forall_forall in Wo; apply Wo; eapply nth_error_In; exact Ko).
    unfold f2. assert (Ez : (fin =? 0) || (fout =? 0) = false) by (apply orb_false_iff; split; apply Z.eqb_neq; lia). rewrite Ez.
    destruct (chunks_full fin (Z.to_nat ready) ib ltac:(lia) ltac:(rewrite Z2Nat.id by lia; nia)) as [Ci1 Ci2].
    destruct (chunks_full fout (Z.to_nat ready) o ltac:(lia) ltac:(rewrite Z2Nat.id by lia; nia)) as [Co1 Co2].
    destruct (@run_units_ok CR SR unit_fn fin fout ltac:(lia) Wu (firstn (Z.to_nat ready) (chunks fin ib)) (chunks fout o) ov Ci2 Lov) as (os & ov' & Er & Mr & Lr).
    { rewrite firstn_length. lia. }
    { rewrite firstn_length. replace (Nat.min (Z.to_nat ready) (length (chunks fin ib))) with (Z.to_nat ready) by lia. exact Co2. }
    rewrite Er. cbn [bind]. eexists. split; [reflexivity|]. cbn [fst snd]. split; [reflexivity|]. split; [|intros _; exact Lr].
    rewrite (concat_zlen_map _ _ Mr), chunks_concat by lia. reflexivity. }
  rewrite E2. cbn [bind].
  (* --- pass 3: move the incomplete block to the front *)
  unfold xi_frames_in_used, xi_extra, xi_keep_cond, xi_keep_lo, xi_keep_hi, xi_saved_end. rewrite P1i, P1s.
  assert (Eex : (sv + Cc - ready * fin <? 0) = false) by (apply Z.ltb_ge; nia). rewrite Eex.
  set (keep := match (sv + Cc >? ready * fin) with true => _ | false => _ end).
  assert (Hkeep : exists bufs2, keep = Ok bufs2 /\ length bufs2 = Z.to_nat nch /\ Forall (fun b => zlen b = Cc + fin) bufs2).
  { unfold keep. destruct (sv + Cc >? ready * fin); [|eexists; split; [reflexivity|split; assumption]].
    destruct (per_channel_rel (C:=CR) (fun ib => match copy_within ib (ready * fin) (sv + Cc) 0 with None => Panic PSliceIndex | Some ib' => Ok ib' end)
                (fun x y => zlen y = zlen x) ltac:(reflexivity) bufs1 mask ltac:(lia)) as (b2 & Eb & Fb).
    { intros k ib Hk _. assert (Lib : zlen ib = Cc + fin) by (rewrite Forall_forall in Fb1; apply Fb1; eapply nth_error_In; exact Hk).
      destruct (copy_within_some ib (ready * fin) (sv + Cc) 0) as (ib' & Ec & Lc); try nia.
      rewrite Ec. eexists. split; [reflexivity|]. exact Lc. }
    rewrite Eb. eexists. split; [reflexivity|]. split; [rewrite (F2_length _ _ _ Fb); exact Lb1|].
    apply Forall_forall. intros b Hb. apply In_nth_error in Hb. destruct Hb as (k & Hk).
    destruct (F2_nth_r _ _ _ Fb k _ Hk) as (b0 & Hk0 & Hz). cbv beta in Hz. rewrite Hz.
    rewrite Forall_forall in Fb1. apply Fb1. eapply nth_error_In; exact Hk0. }
  destruct Hkeep as (bufs2 & Ek & Lb2 & Fb2). rewrite Ek. cbn [bind].
  eexists _, _, mask, r1, r2. split; [unfold xi_ret_in, xi_ret_out; cbn [FftFixedIn_chunk_size_in set_FftFixedIn_saved_frames]; fold st Cc; reflexivity|].
  assert (Esv : sv + Cc - ready * fin = (sv + Cc) mod fin) by lia.
  split.
  - constructor; unfold ifin, ifout, iC, inch, isaved; cbn [fs_ctl fs_bufs fs_overlaps fs_mask];
      cbn [FftFixedIn_nbr_channels FftFixedIn_chunk_size_in FftFixedIn_fft_size_in FftFixedIn_fft_size_out FftFixedIn_saved_frames
           set_FftFixedIn_saved_frames]; fold st fin fout Cc nch; try assumption; try lia.
    + rewrite map_length. rewrite (F2_length _ _ _ F2).
      rewrite zip3_length; lia.
    + apply Forall_forall. intros o Ho. apply in_map_iff in Ho. destruct Ho as ([[ib' o'] ov'] & <- & Hin). cbn [snd].
      apply In_nth_error in Hin. destruct Hin as (k & Hk).
      destruct (F2_nth_r _ _ _ F2 k _ Hk) as ([[ib0 o0] ov0] & Hk0 & _ & _ & Hz). cbn [fst snd] in Hz. apply Hz.
      destruct (zip3_nth _ _ _ _ _ _ _ Hk0) as (_ & _ & Ko).
      rewrite Forall_forall in Wo. apply Wo. eapply nth_error_In; exact Ko.
  - unfold ifin, ifout, iC, inch, isaved; cbn [fs_ctl fs_bufs fs_overlaps]; cbn [FftFixedIn_nbr_channels FftFixedIn_chunk_size_in FftFixedIn_fft_size_in
      FftFixedIn_fft_size_out FftFixedIn_saved_frames set_FftFixedIn_saved_frames]. fold st fin fout Cc nch sv.
    split; [exact Esv|]. split; [reflexivity|]. split; [reflexivity|]. split; [reflexivity|]. split; [reflexivity|].
    split; [first [reflexivity | exact Epro]|]. split; [first [exact E1 | reflexivity]|]. split; [first [exact E2 | reflexivity]|]. split; [reflexivity|]. split; [reflexivity|].
    unfold keep in Ek. destruct (sv + Cc >? ready * fin); [exact Ek | injection Ek as <-; reflexivity].
Qed.

(** what the rest of the development uses *)
Theorem xi_call_safe (s : ST) wi wo m :
  xi_wf s ->
  (let st := fs_ctl s in
   @x_precheck CR SR (xi_mask_bad st) (xi_val_channels st) (xi_val_min_in st)
              (xi_val_min_out st (xi_needed_len st (@xi_nbr_chunks_ready CR st (xi_next_saved_frames st)))) (fs_mask s) wi wo m) = Ok tt ->
  let ready := (isaved s + iC s) / ifin s in
  exists s' outs, @xi_pib CR SR unit_fn s wi wo m = Ok (s', (iC s, ready * ifout s), outs) /\ xi_wf s' /\
                  isaved s' = (isaved s + iC s) mod ifin s /\
                  ifin s' = ifin s /\ ifout s' = ifout s /\ iC s' = iC s /\ inch s' = inch s.
Proof.
  intros W Hpre ready. destruct (xi_call_stages s wi wo m W Hpre) as (s' & outs & mask & r1 & r2 & E & W' & H1 & H2 & H3 & H4 & H5 & _).
  exists s', outs. split; [exact E|]. split; [exact W'|]. split; [exact H1|]. split; [exact H2|]. split; [exact H3|]. split; [exact H4|exact H5].
Qed.

End XI.

(** * Histories and the constructor *)
Section XIHist.
Variable unit_fn : list (@snum CR SR) -> list (@snum CR SR).
Notation ST := (@fstate CR SR (@FftFixedIn)).

Definition xi_pre (s : ST) wi wo m : @res CR unit :=
  let st := fs_ctl s in
  @x_precheck CR SR (xi_mask_bad st) (xi_val_channels st) (xi_val_min_in st)
             (xi_val_min_out st (xi_needed_len st (@xi_nbr_chunks_ready CR st (xi_next_saved_frames st)))) (fs_mask s) wi wo m.

Fixpoint xi_run (s : ST) (calls : list (list (list (@snum CR SR)) * list (list (@snum CR SR)) * option (list bool))) : @res CR (ST * Z * Z) :=
  match calls with
  | [] => Ok (s, 0, 0)
  | (wi, wo, m) :: rest =>
      do _ <- xi_pre s wi wo m;
      do x <- @xi_pib CR SR unit_fn s wi wo m;
      let '(s', (a, b), _) := x in
      do y <- xi_run s' rest;
      let '(s'', nin, nout) := y in
      Ok (s'', a + nin, b + nout)
  end.

(** every history of well-formed calls is Ok; frames are conserved: what was produced, in input frames,
    is what was consumed plus what was parked before minus what is parked now *)
Theorem xi_history : forall calls (s : ST), xi_wf unit_fn s ->
  match xi_run s calls with
  | Ok (s', nin, nout) =>
      xi_wf unit_fn s' /\ ifin s' = ifin s /\ ifout s' = ifout s /\ iC s' = iC s /\ 0 <= nin /\
      nout * ifin s = ifout s * (nin + isaved s - isaved s')
  | Err _ => True
  | Panic _ | UB _ | Diverge => False
  end.
Proof.
  induction calls as [|[[wi wo] m] rest IH]; intros s W; cbn [xi_run].
  - split; [exact W|]. repeat split; try reflexivity; try lia.
  - unfold xi_pre at 1. cbv zeta.
    match goal with |- context [x_precheck ?a ?b ?c ?d ?sm ?f ?g ?h] =>
      destruct (@x_precheck_total CR SR a b c d sm f g h) as [Hp|[er Hp]] end; rewrite Hp; cbn [bind]; [|exact I].
    destruct (xi_call_safe unit_fn s wi wo m W Hp) as (s' & outs & E & W' & Hsv & Hfi & Hfo & HC & Hn).
    rewrite E. cbn [bind]. specialize (IH s' W').
    destruct (xi_run s' rest) as [[[s'' nin] nout]| | | |]; cbn [bind]; try exact IH.
    destruct IH as (W'' & Hfi'' & Hfo'' & HC'' & Hin & Hbal).
    destruct W as [Wfin Wfout WC Wn Wsv _ _ _ _ _ _].
    split; [exact W''|]. split; [congruence|]. split; [congruence|]. split; [congruence|]. split; [lia|].
    rewrite Hfi, Hfo, Hsv in Hbal.
    assert (Hdm : isaved s + iC s = ifin s * ((isaved s + iC s) / ifin s) + (isaved s + iC s) mod ifin s) by (apply Z.div_mod; lia).
    nia.
Qed.

(** no drift (C07): the totals differ from the exact ratio fft_size_out/fft_size_in by less than one block *)
Corollary xi_accounting calls (s s' : ST) nin nout :
  xi_wf unit_fn s -> xi_run s calls = Ok (s', nin, nout) ->
  Z.abs (nout * ifin s - ifout s * nin) < ifout s * ifin s.
Proof.
  intros W E. generalize (xi_history calls s W). rewrite E. intros (W' & Hfi & Hfo & HC & Hin & Hbal).
  destruct W as [Wfin Wfout _ _ Wsv _ _ _ _ _ _]. destruct W' as [_ _ _ _ Wsv' _ _ _ _ _ _]. rewrite Hfi in Wsv'.
  nia.
Qed.

End XIHist.

(** * The constructor establishes the invariant; the block sizes are in the exact ratio of the rates *)
From Rubato.Model Require Resamplers.

Lemma fft_chunks_ge1_R minc wanted : 1 <= minc -> 1 <= wanted -> 1 <= @xi_new_fft_chunks CR minc wanted.
Proof.
  intros Hm Hw. unfold xi_new_fft_chunks. cbn [c32_to_usize ceil32 div32 c32_of_Z CR]. rewrite Ztrunc_IZR.
  assert (0 < IZR wanted / IZR minc)%R.
  { apply Rdiv_lt_0_compat; apply IZR_lt; lia. }
  assert (0 < Zceil (IZR wanted / IZR minc)); [|lia].
  apply lt_IZR. generalize (Zceil_ub (IZR wanted / IZR minc)). lra.
Qed.

Theorem xi_ctor (unit_fn : list (@snum CR SR) -> list (@snum CR SR)) rate_in rate_out chunk sub nch s :
  0 < rate_in -> 0 < rate_out -> 1 <= chunk -> 0 <= nch ->
  @Resamplers.fft_in_new CR SR rate_in rate_out chunk sub nch = inr (Resamplers.RFftIn s) ->
  (forall w, zlen w = ifin s -> zlen (unit_fn w) = 2 * ifout s) ->
  xi_wf unit_fn s /\ ifin s * rate_out = ifout s * rate_in /\ isaved s = 0 /\ iC s = chunk.
Proof.
  intros Hi Ho Hc Hn. unfold Resamplers.fft_in_new.
  destruct (syn_validate_rates_bad rate_in rate_out); [discriminate|]. cbv zeta.
  set (g := xi_new_gcd rate_in rate_out).
  set (fc := xi_new_fft_chunks (xi_new_min_chunk_in g rate_in) (xi_new_wanted_subsize chunk sub)).
  intros H; injection H as <-. intros Hu.
  assert (Hg : 0 < g) by (unfold g, xi_new_gcd; generalize (Z.gcd_nonneg rate_in rate_out) (Z.gcd_eq_0_l rate_in rate_out); lia).
  destruct (Z.gcd_divide_l rate_in rate_out) as (a & Ha). destruct (Z.gcd_divide_r rate_in rate_out) as (b & Hb).
  fold (xi_new_gcd rate_in rate_out) in Ha, Hb. fold g in Ha, Hb.
  assert (Ha1 : 1 <= a) by nia. assert (Hb1 : 1 <= b) by nia.
  assert (Hminc : xi_new_min_chunk_in g rate_in = a).
  { unfold xi_new_min_chunk_in. rewrite Z.quot_div_nonneg by lia. rewrite Ha. apply Z.div_mul. lia. }
  assert (Hfc : 1 <= fc).
  { unfold fc. rewrite Hminc. apply fft_chunks_ge1_R; [lia|]. unfold xi_new_wanted_subsize. lia. }
  assert (Ein : xi_new_fft_size_in fc g rate_in = fc * a).
  { unfold xi_new_fft_size_in. rewrite Z.quot_div_nonneg by nia. rewrite Ha at 1. rewrite Z.mul_assoc, Z.div_mul by lia. reflexivity. }
  assert (Eout : xi_new_fft_size_out fc g rate_out = fc * b).
  { unfold xi_new_fft_size_out. rewrite Z.quot_div_nonneg by nia. rewrite Hb at 1. rewrite Z.mul_assoc, Z.div_mul by lia. reflexivity. }
  unfold ifin, ifout, isaved, iC in *. cbn [fs_ctl] in *.
  cbv [set_FftFixedIn_nbr_channels set_FftFixedIn_chunk_size_in set_FftFixedIn_fft_size_in set_FftFixedIn_fft_size_out
       set_FftFixedIn_saved_frames default_FftFixedIn FftFixedIn_nbr_channels FftFixedIn_chunk_size_in FftFixedIn_fft_size_in
       FftFixedIn_fft_size_out FftFixedIn_saved_frames] in *.
  split; [|split; [|split; reflexivity]].
  - constructor; unfold ifin, ifout, iC, inch, isaved; cbn [fs_ctl fs_bufs fs_overlaps fs_mask];
      cbv [FftFixedIn_nbr_channels FftFixedIn_chunk_size_in FftFixedIn_fft_size_in FftFixedIn_fft_size_out FftFixedIn_saved_frames];
      rewrite ?Ein, ?Eout; try nia; try reflexivity.
    + unfold Resamplers.chans. rewrite repeat_length. reflexivity.
    + unfold Resamplers.chans, xi_new_ibuf_len. apply Forall_forall. intros o Hin. apply repeat_spec in Hin. subst o.
      unfold Resamplers.zeros, zlen. rewrite repeat_length. rewrite Z2Nat.id by nia. reflexivity.
    + unfold Resamplers.chans. rewrite repeat_length. reflexivity.
    + unfold Resamplers.chans, xi_new_overlap_len. apply Forall_forall. intros o Hin. apply repeat_spec in Hin. subst o.
      unfold Resamplers.zeros, zlen. rewrite repeat_length. rewrite Z2Nat.id by nia. reflexivity.
    + unfold Resamplers.chans. rewrite repeat_length. reflexivity.
    + rewrite Ein, Eout in Hu. exact Hu.
  - rewrite Ein, Eout. rewrite Ha, Hb at 1. ring_simplify. nia.
Qed.

(** the counts of a valid call are what the getters advertised *)
Lemma xi_counts unit_fn (s : @fstate CR SR FftFixedIn) wi wo m :
  xi_wf unit_fn s -> xi_pre s wi wo m = Ok tt ->
  exists s' outs, @xi_pib CR SR unit_fn s wi wo m =
                  Ok (s', (xi_input_frames_next (fs_ctl s), @xi_output_frames_next CR (fs_ctl s)), outs).
Proof.
  intros W P. destruct (xi_call_safe unit_fn s wi wo m W P) as (s' & outs & E & _).
  exists s', outs. rewrite E. f_equal. f_equal. f_equal.
  unfold xi_output_frames_next. destruct W as [Wfin _ WC _ Wsv _ _ _ _ _ _].
  fold (@xi_nbr_chunks_ready CR (fs_ctl s) (FftFixedIn_saved_frames (fs_ctl s) + FftFixedIn_chunk_size_in (fs_ctl s))).
  rewrite chunks_ready_R by (unfold ifin, isaved, iC in *; lia). reflexivity.
Qed.
