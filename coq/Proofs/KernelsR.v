(** C15 (ideal arithmetic): every dot-product kernel — scalar, SSE, AVX, f32 and f64 variants —
    computes the same sum of products; they differ only in summation order.             *)

From Coq Require Import ZArith Reals List Bool Lra Lia.
From Rubato.Model Require Import Num Reals Base Kernels Async.
Import ListNotations.
Local Open Scope R_scope.

Fixpoint dot (w s : list R) : R :=
  match w, s with
  | x :: w', y :: s' => x * y + dot w' s'
  | _, _ => 0
  end.

Definition sum8 (a : list R) : R :=
  nth 0 a 0 + nth 1 a 0 + nth 2 a 0 + nth 3 a 0 + nth 4 a 0 + nth 5 a 0 + nth 6 a 0 + nth 7 a 0.

Lemma mac_R fused (a w s : R) : @mac CR SR fused a w s = a + w * s.
Proof. unfold mac. destruct fused; cbv [sfma sadd smul SR snum]; ring. Qed.

Lemma dot_app w1 s1 w2 s2 : length w1 = length s1 -> dot (w1 ++ w2) (s1 ++ s2) = dot w1 s1 + dot w2 s2.
Proof.
  revert s1. induction w1 as [|x w1 IH]; intros [|y s1] H; try discriminate; cbn [app dot]; [lra|].
  rewrite IH by (cbn in H; lia). lra.
Qed.

(* one block of eight *)
Lemma mac_lanes_8 fused a0 a1 a2 a3 a4 a5 a6 a7 w0 w1 w2 w3 w4 w5 w6 w7 s0 s1 s2 s3 s4 s5 s6 s7 :
  let r := @mac_lanes CR SR fused [a0;a1;a2;a3;a4;a5;a6;a7] [w0;w1;w2;w3;w4;w5;w6;w7] [s0;s1;s2;s3;s4;s5;s6;s7] in
  length r = 8%nat /\
  sum8 r = sum8 [a0;a1;a2;a3;a4;a5;a6;a7] + dot [w0;w1;w2;w3;w4;w5;w6;w7] [s0;s1;s2;s3;s4;s5;s6;s7].
Proof.
  cbn [mac_lanes]. rewrite !mac_R. split; [reflexivity|]. unfold sum8. cbn [nth dot]. ring.
Qed.

Lemma firstn_8_cases (l : list R) : (8 <= length l)%nat ->
  exists x0 x1 x2 x3 x4 x5 x6 x7, firstn 8 l = [x0;x1;x2;x3;x4;x5;x6;x7].
Proof.
  intros H. do 8 (destruct l as [|? l]; [cbn in H; lia|]). repeat eexists.
Qed.

Lemma len8_cases (l : list R) : length l = 8%nat -> exists x0 x1 x2 x3 x4 x5 x6 x7, l = [x0;x1;x2;x3;x4;x5;x6;x7].
Proof.
  intros H. do 8 (destruct l as [|? l]; [discriminate|]). destruct l; [|discriminate]. repeat eexists.
Qed.

Lemma lanes_loop_sum fused n : forall (acc w s : list R),
  length acc = 8%nat -> length w = (8 * n)%nat -> length s = (8 * n)%nat ->
  let r := @lanes_loop CR SR fused n acc w s in
  length r = 8%nat /\ sum8 r = sum8 acc + dot w s.
Proof.
  induction n as [|n IH]; intros acc w s Ha Hw Hs.
  - cbn [lanes_loop]. destruct w; [|discriminate]. cbn [dot]. split; [exact Ha|lra].
  - cbn [lanes_loop]. change (@snum CR SR) with R.
    destruct (len8_cases acc Ha) as (a0&a1&a2&a3&a4&a5&a6&a7&->).
    destruct (firstn_8_cases w ltac:(lia)) as (w0&w1&w2&w3&w4&w5&w6&w7&Ew).
    destruct (firstn_8_cases s ltac:(lia)) as (s0&s1&s2&s3&s4&s5&s6&s7&Es).
    rewrite Ew, Es.
    destruct (mac_lanes_8 fused a0 a1 a2 a3 a4 a5 a6 a7 w0 w1 w2 w3 w4 w5 w6 w7 s0 s1 s2 s3 s4 s5 s6 s7) as [L1 S1].
    destruct (IH (@mac_lanes CR SR fused [a0;a1;a2;a3;a4;a5;a6;a7] [w0;w1;w2;w3;w4;w5;w6;w7] [s0;s1;s2;s3;s4;s5;s6;s7])
                 (skipn 8 w) (skipn 8 s)) as [L2 S2]; try exact L1; try (rewrite skipn_length; lia).
    split; [exact L2|]. change (@snum CR SR) with R in S1, S2 |- *. rewrite S2, S1.
    rewrite <- (firstn_skipn 8 w) at 2. rewrite <- (firstn_skipn 8 s) at 2.
    rewrite dot_app by (rewrite !firstn_length; lia). rewrite Ew, Es. lra.
Qed.

Lemma reduce_sum8 k (a : list R) : @reduce CR SR k a = sum8 a.
Proof. unfold reduce, lane, sum8. destruct k; cbv [sadd SR szero snum]; ring. Qed.

(** every kernel = the exact dot product, for every length that is a multiple of 8 *)
Theorem kernel_is_dot k (w s : list R) n :
  length w = (8 * n)%nat -> length s = (8 * n)%nat -> @kernel CR SR k w s = dot w s.
Proof.
  intros Hw Hs. unfold kernel. rewrite reduce_sum8. change (@snum CR SR) with R.
  replace (Nat.div (length w) 8) with n by (rewrite Hw, Nat.mul_comm, Nat.div_mul; lia).
  destruct (lanes_loop_sum (kernel_fused k) n (repeat 0 8) w s eq_refl Hw Hs) as [_ H].
  change (@snum CR SR) with R in H |- *. change (@szero CR SR) with 0. rewrite H. unfold sum8. cbn. lra.
Qed.

Corollary kernels_agree k1 k2 (w s : list R) n :
  length w = (8 * n)%nat -> length s = (8 * n)%nat -> @kernel CR SR k1 w s = @kernel CR SR k2 w s.
Proof. intros Hw Hs. rewrite !(kernel_is_dot _ w s n) by assumption. reflexivity. Qed.

(** a kernel call that passes the asserts reads exactly wave[index .. index+len) (C15 read set) *)
Theorem sinc_point_reads k (sincs : list (list (@snum CR SR))) len nbr (buf : list (@snum CR SR)) index sub v :
  @sinc_point CR SR k sincs len nbr buf index sub = Ok v ->
  (0 <= index)%Z -> (0 <= sub)%Z ->
  v = @kernel CR SR k (slice buf index (index + len)) (nth (Z.to_nat sub) sincs []) /\
  (index + len < zlen buf)%Z /\ (sub < nbr)%Z.
Proof.
  unfold sinc_point. intros H Hi Hs.
  assert (E1 : isize_as_usize index = index) by (unfold isize_as_usize; destruct (Z.ltb_spec index 0); [lia|reflexivity]).
  assert (E2 : isize_as_usize sub = sub) by (unfold isize_as_usize; destruct (Z.ltb_spec sub 0); [lia|reflexivity]).
  rewrite E1, E2 in H.
  destruct (index + len <? zlen buf)%Z eqn:L1; cbn [negb] in H; [|discriminate].
  destruct (sub <? nbr)%Z eqn:L2; cbn [negb] in H; [|discriminate].
  apply Z.ltb_lt in L1, L2. injection H as <-. repeat split; assumption.
Qed.
