(** C05 for FastFixedOut, ideal arithmetic, constant ratio: the same stream specification as
    FastFixedIn (Proofs/StreamR.v) -- hence the fixed-input and the fixed-output variant of the
    polynomial resampler produce the same stream.                                           *)

From Coq Require Import ZArith Reals List Bool Lra Lia.
From Flocq Require Import Core.
From Rubato.Model Require Import Num Reals Base Validate Async Resamplers.
From Rubato.Gen Require Import FastGen.
From Rubato.Proofs Require Import ShapeP ValidateP EngineP StepperR MalformedP ChannelsP ContentP FastInR FastOutR FastCtorR StreamR.
Import ListNotations.
Local Open Scope R_scope.

Lemma window_as_spec' (b : list (@snum CR SR)) (X : Z -> R) (N lo : Z) (w : nat) (lim : Z) :
  (0 <= lo)%Z -> (lo + Z.of_nat w <= lim)%Z -> (lim <= zlen b)%Z ->
  (forall i, (0 <= i < lim)%Z -> getR b i = X (N - 16 + i)%Z) ->
  slice b lo (lo + Z.of_nat w) = map (fun j => X (N - 16 + lo + Z.of_nat j)%Z) (seq 0 w).
Proof.
  intros H1 H2 H3 Hc. change (@snum CR SR) with R in *. rewrite (slice_as_map 0) by lia. replace (Z.to_nat (lo + Z.of_nat w - lo)) with w by lia.
  apply map_ext_in. intros j Hj. apply in_seq in Hj. rewrite Hc by lia. f_equal. lia.
Qed.

(** one read: the value is the specification at the global instant N + idx, when the buffer
    holds the input samples N-16 .. *)
Lemma fo_sample_value (st : FO) d (b : list (@snum CR SR)) (idx : R) (X : Z -> R) (N lim : Z) :
  (0 <= Zfloor idx - reach_lo d + 16)%Z ->
  (Zfloor idx - reach_lo d + 16 + win_width d <= lim)%Z -> (lim <= zlen b)%Z ->
  (forall i, (0 <= i < lim)%Z -> getR b i = X (N - 16 + i)%Z) ->
  @fast_sample CR SR (fo_arm st d) b idx = Ok (fast_spec d X (IZR N + idx)).
Proof.
  intros H1 H2 Hlim Hc. unfold fast_sample, fast_spec. rewrite Zfloor_add_IZR.
  destruct d; cbn [fo_arm fa_nearest fa_idx_floor fa_start_idx fa_frac fa_lo fa_hi fa_interp reach_lo win_width interp_of] in *.
  1-4: unfold fo_septic_idx_floor, fo_septic_start_idx, fo_septic_win_lo, fo_septic_win_hi, fo_septic_frac,
         fo_quintic_idx_floor, fo_quintic_start_idx, fo_quintic_win_lo, fo_quintic_win_hi, fo_quintic_frac,
         fo_cubic_idx_floor, fo_cubic_start_idx, fo_cubic_win_lo, fo_cubic_win_hi, fo_cubic_frac,
         fo_linear_idx_floor, fo_linear_start_idx, fo_linear_win_lo, fo_linear_win_hi, fo_linear_frac, POLYNOMIAL_LEN_I;
       cbn [cfloor c_to_isize csub coerce CR SR]; rewrite Ztrunc_IZR_id; rewrite !isize_as_usize_nonneg by lia; unfold fast_read;
       match goal with |- context [in_range ?b ?l ?h] => assert (E : in_range b l h = true) by (apply in_range_iff; lia); rewrite E end;
       cbn [bind]; f_equal; f_equal; [rewrite plus_IZR; ring|].
  - replace (Zfloor idx - 3 + 2 * 8 + 8)%Z with ((Zfloor idx - 3 + 2 * 8) + Z.of_nat 8)%Z by lia.
    rewrite (window_as_spec' b X N _ _ lim) by (try assumption; lia). apply map_ext. intros j. f_equal. lia.
  - replace (Zfloor idx - 2 + 2 * 8 + 6)%Z with ((Zfloor idx - 2 + 2 * 8) + Z.of_nat 6)%Z by lia.
    rewrite (window_as_spec' b X N _ _ lim) by (try assumption; lia). apply map_ext. intros j. f_equal. lia.
  - replace (Zfloor idx - 1 + 2 * 8 + 4)%Z with ((Zfloor idx - 1 + 2 * 8) + Z.of_nat 4)%Z by lia.
    rewrite (window_as_spec' b X N _ _ lim) by (try assumption; lia). apply map_ext. intros j. f_equal. lia.
  - replace (Zfloor idx + 2 * 8 + 2)%Z with ((Zfloor idx + 2 * 8) + Z.of_nat 2)%Z by lia.
    rewrite (window_as_spec' b X N _ _ lim) by (try assumption; lia). apply map_ext. intros j. f_equal. lia.
  - unfold fo_nearest_start_idx, fo_nearest_point, POLYNOMIAL_LEN_I. cbn [cfloor c_to_isize CR]. rewrite Ztrunc_IZR_id.
    rewrite isize_as_usize_nonneg by lia. unfold fast_point.
    destruct (nth_opt_some b (Zfloor idx + 2 * 8)%Z) as (v & Ev); [lia|]. rewrite Ev. f_equal.
    unfold nth_opt in Ev. destruct ((0 <=? Zfloor idx + 2 * 8)%Z && (Zfloor idx + 2 * 8 <? zlen b)%Z); [|discriminate].
    generalize (getz_nth_error 0 b _ v Ev). rewrite Z2Nat.id by lia. intros <-. rewrite Hc by lia. f_equal. lia.
Qed.


(** * One call *)
Section Call.
Variable d : degree.
Notation A := (@fo_arch CR SR d).
Notation ST := (@astate CR SR FO).

(* channel c holds the input samples N-fill-16 .. N-1 of X in the first fill+16 cells of its buffer *)
Definition oholds (s : ST) (c : nat) (X : Z -> R) (N : Z) : Prop :=
  exists b, nth_error (as_buf s) c = Some b /\
            forall i, (0 <= i < ofill s + 16)%Z -> getR b i = X (N - ofill s - 16 + i)%Z.

Theorem fo_call_stream_R blen (s : ST) wi wo (c : nat) (X : Z -> R) (N : Z) w :
  fo_wf blen s -> a_precheck A s wi wo None = Ok tt ->
  oholds s c X N -> nth_error wi c = Some w -> feeds w X N (oneeded s) ->
  exists (s' : ST) outs o,
    pib A s wi wo None = Ok (s', (oneeded s, oC s), outs) /\ fo_wf blen s' /\ (0 <= oneeded s)%Z /\
    oli s' = oli s + IZR (oC s) * / oratio s - IZR (oneeded s) /\ oC s' = oC s /\ oratio s' = oratio s /\
    oholds s' c X (N + oneeded s) /\
    nth_error outs c = Some o /\ (oC s <= zlen o)%Z /\
    forall k, (0 <= k < oC s)%Z -> getR o k = fast_spec d X (IZR N + oli s + IZR (k + 1) * / oratio s).
Proof.
  intros W Hpre (b & Hb & Hcont) Hw Hfeed.
  destruct (fo_call_const_R d blen s wi wo None W Hpre) as (s' & outs & E & W' & Hli & HC & Hnch & Hr & HN0).
  destruct (pib_inv A s wi wo s' _ outs E) as (bufs1 & bufs2 & ps & last & E1 & E2 & Epos & Eo & Es' & Ecnt).
  cbn [a_pre fo_arch a_fixed_in] in E1, E2, Epos, Eo, Es', Ecnt.
  destruct W as [WC Wn Wlb Wlm Wb Wr Wt Wli Wnd Wfl Wbl].
  unfold oC, onch, oratio, oli, oneeded, ofill in *.
  set (st := as_ctl s) in *.
  set (Cc := FastFixedOut_chunk_size st) in *.
  set (r := FastFixedOut_resample_ratio st) in *.
  set (Nn := FastFixedOut_needed_input_size st) in *.
  set (F := FastFixedOut_current_buffer_fill st) in *.
  set (l0 := FastFixedOut_last_index st) in *.
  assert (Hr0 : r <> 0) by lra.
  set (t := / r) in *.
  assert (Ht : 0 < t) by (apply Rinv_0_lt_compat; exact Wr).
  assert (HC1 : 1 <= IZR Cc) by (apply IZR_le; lia).
  assert (HCt : 0 < IZR Cc * t) by nra.
  assert (HNlo : IZR Nn >= l0 + IZR Cc * t + 8) by (rewrite Wnd; generalize (Zceil_ub (l0 + IZR Cc * t + 8)); lra).
  assert (HNmax : (Nn <= Zceil (IZR Cc * t) + 4)%Z).
  { rewrite Wnd. replace (l0 + IZR Cc * t + 8) with (IZR Cc * t + (l0 + 8)) by ring.
    apply Zceil_glb. rewrite plus_IZR. generalize (Zceil_ub (IZR Cc * t)). change (IZR 4) with 4. lra. }
  set (mask := map (fun _ : bool => true) (as_mask s)) in *.
  unfold fo_fill_next in *. fold Nn in E2, Epos, Eo, Es', Ecnt.
  set (st1 := set_FastFixedOut_current_buffer_fill st Nn) in *.
  (* shapes from the argument check *)
  unfold a_precheck in Hpre. cbn [bind] in Hpre. fold st mask in Hpre.
  apply validate_ok_iff in Hpre. destruct Hpre as (Vi & Vm & Vil & Vo & Vol).
  cbn [a_val_channels a_val_min_in a_val_min_out fo_arch] in Vi, Vm, Vil, Vo, Vol.
  unfold fo_val_channels, fo_val_min_in, fo_val_min_out in Vi, Vm, Vil, Vo, Vol. fold Cc Nn in Vil, Vol.
  assert (Hc : (c < length (as_buf s))%nat) by (apply nth_error_Some; congruence).
  assert (Hm : nth_error mask c = Some true).
  { unfold mask. rewrite all_true_map. apply nth_error_repeat_true. lia. }
  (* history shift *)
  cbn [a_shift_lo a_shift_hi a_shift_dst fo_arch] in E1. unfold fo_shift_lo, fo_shift_hi, fo_shift_dst, POLYNOMIAL_LEN_U in E1. fold F in E1.
  destruct (shift_all_nth _ _ _ _ _ c b E1 Hb) as (b1 & Hb1 & Ecw).
  assert (Lb : zlen b = blen) by (eapply all_len_nth; eassumption).
  assert (Lb1 : zlen b1 = blen) by (rewrite (copy_within_length _ _ _ _ _ Ecw); exact Lb).
  (* load *)
  destruct (fill_all_nth A st1 bufs1 wi mask bufs2 c b1 true E2 Hb1 Hm) as (b2 & Hb2 & (w' & Hw' & Ef)).
  rewrite Hw in Hw'. injection Hw' as <-.
  unfold fill_channel in Ef. cbn [a_fill_lo a_fill_hi a_fill_src_hi fo_arch] in Ef.
  unfold fo_fill_lo, fo_fill_hi, fo_fill_src_hi, POLYNOMIAL_LEN_U in Ef.
  unfold st1, set_FastFixedOut_current_buffer_fill in Ef. cbn [FastFixedOut_needed_input_size] in Ef. fold st Nn in Ef.
  destruct (in_range b1 (2 * 8) (2 * 8 + Nn)) eqn:R1; cbn [negb] in Ef; [|discriminate].
  destruct (in_range w 0 Nn) eqn:R2; cbn [negb] in Ef; [|discriminate].
  destruct (2 * 8 + Nn - 2 * 8 =? Nn)%Z; cbn [negb] in Ef; [|discriminate].
  injection Ef as Eb2. apply in_range_iff in R1, R2. change (@snum CR SR) with R in *.
  assert (Lsl : zlen (slice w 0 Nn) = Nn) by (rewrite slice_length by lia; lia).
  assert (Lb2 : zlen b2 = blen) by (rewrite <- Eb2, splice_length by lia; exact Lb1).
  assert (Cont2 : forall i, (0 <= i < Nn + 16)%Z -> getR b2 i = X (N - 16 + i)%Z).
  { intros i Hi. rewrite <- Eb2.
    rewrite getz_splice by lia. rewrite Lsl.
    destruct ((16 <=? i)%Z && (i <? 16 + Nn)%Z) eqn:Ei.
    - apply andb_true_iff in Ei. destruct Ei as [Ea Eb]. apply Z.leb_le in Ea. apply Z.ltb_lt in Eb.
      rewrite getz_slice by lia. rewrite Hfeed by lia. f_equal. lia.
    - assert (Hi16 : (i < 16)%Z).
      { apply andb_false_iff in Ei. destruct Ei as [Ea|Eb]; [apply Z.leb_gt in Ea; lia | apply Z.ltb_ge in Eb; lia]. }
      rewrite (getz_copy_within 0 b b1 F (F + 2 * 8) 0 i Ecw).
      destruct ((0 <=? i)%Z && (i <? 0 + (F + 2 * 8 - F))%Z) eqn:Ej.
      + rewrite Hcont by lia. f_equal. lia.
      + apply andb_false_iff in Ej. destruct Ej as [Ea|Eb]; [apply Z.leb_gt in Ea; lia | apply Z.ltb_ge in Eb; lia]. }
  (* the stepping loop: exactly chunk frames *)
  cbn [a_t0 a_tend a_inc a_idx0 a_bound fo_arch] in Epos.
  assert (Hbd : fi_pick d (@fo_septic_loop_bound CR) (@fo_quintic_loop_bound CR) (@fo_cubic_loop_bound CR)
                       (@fo_linear_loop_bound CR) (@fo_nearest_loop_bound CR) st1 = Cc) by (destruct d; reflexivity).
  rewrite Hbd in Epos.
  assert (Ht0 : @fo_t_ratio CR st1 = t).
  { unfold fo_t_ratio, st1, set_FastFixedOut_current_buffer_fill. cbn [FastFixedOut_resample_ratio]. fold st r.
    cbv [c_lit cdiv CR cnum]. unfold t. field. exact Hr0. }
  assert (Ht1 : @fo_t_ratio_end CR st1 = t).
  { unfold fo_t_ratio_end, st1, set_FastFixedOut_current_buffer_fill. cbn [FastFixedOut_target_ratio]. fold st. rewrite Wt. fold r.
    cbv [c_lit cdiv CR cnum]. unfold t. field. exact Hr0. }
  rewrite Ht0, Ht1 in Epos.
  assert (Hinc : @fo_t_ratio_increment CR st1 t t = 0).
  { unfold fo_t_ratio_increment. cbv [cdiv csub CR cnum]. unfold Rdiv. rewrite Rminus_diag_eq by reflexivity. ring. }
  rewrite Hinc in Epos.
  assert (Hloop : forall n t0 inc0 i0,
            @positions_out CR (a_tstep A st1) (a_istep A st1) n t0 inc0 i0 = @positions_out CR Rplus Rplus n t0 inc0 i0)
    by (intros; destruct d; reflexivity).
  rewrite Hloop in Epos. assert (Hidx : @fo_idx0 CR st1 = l0) by reflexivity. rewrite Hidx in Epos.
  rewrite positions_out_spec in Epos. injection Epos as Hps _.
  assert (Hpos : forall k, pos_at l0 t 0 k = l0 + INR k * t) by (intros k; unfold pos_at; lra).
  assert (Hlen : length ps = Z.to_nat Cc) by (rewrite <- Hps; rewrite map_length, seq_length; reflexivity).
  (* outputs of channel c *)
  assert (Ho0 : exists o0, nth_error wo c = Some o0).
  { destruct (nth_error wo c) as [o0|] eqn:Eo0; [eauto|]. apply nth_error_None in Eo0.
    unfold zlen in Vo. rewrite map_length in Vo. lia. }
  destruct Ho0 as (o0 & Ho0).
  destruct (outputs_all_nth A st1 bufs2 wo mask ps outs c b2 o0 true Eo Hb2 Ho0 Hm) as (o & Ho & (vals & Evals & Eow)).
  cbn [a_sample fo_arch] in Evals.
  destruct (samples_at_nth _ _ _ Evals) as (Lv & Nv).
  exists s', outs, o.
  split; [exact E|]. split; [exact W'|]. split; [exact HN0|]. split; [exact Hli|]. split; [exact HC|]. split; [exact Hr|].
  split.
  { exists b2. unfold ofill. split; [rewrite Es'; exact Hb2|].
    assert (HF' : FastFixedOut_current_buffer_fill (as_ctl s') = Nn).
    { rewrite Es'. cbn [as_ctl a_finish fo_arch]. reflexivity. }
    rewrite HF'. intros i Hi. rewrite Cont2 by lia. f_equal. lia. }
  split; [exact Ho|].
  split. { rewrite Eow. unfold write_prefix, zlen. rewrite app_length. change (@cnum CR) with R in *. lia. }
  intros k Hk. change (@cnum CR) with R in *.
  assert (Hkn : (Z.to_nat k < length ps)%nat) by lia.
  destruct (nth_error ps (Z.to_nat k)) as [p|] eqn:Ep; [|apply nth_error_None in Ep; lia].
  destruct (Nv _ _ Ep) as (v & Ev & Hv).
  assert (Epk : p = l0 + IZR (k + 1) * t).
  { rewrite <- Hps in Ep. rewrite nth_error_map in Ep. rewrite nth_error_nth' with (d := O) in Ep by (rewrite seq_length; lia).
    cbn [option_map] in Ep. injection Ep as <-. rewrite seq_nth by lia. rewrite Hpos.
    rewrite INR_IZR_INZ. f_equal. f_equal. f_equal. lia. }
  assert (Fb : (-9 <= Zfloor p <= Nn - 8)%Z).
  { rewrite Epk.
    assert (K0 : 1 <= IZR (k + 1)) by (apply IZR_le; lia).
    assert (K1 : IZR (k + 1) <= IZR Cc) by (apply IZR_le; lia).
    split.
    - apply Zfloor_lub. change (IZR (-9)) with (-9). nra.
    - rewrite <- (Zfloor_IZR (Nn - 8)). apply Zfloor_le. rewrite minus_IZR. change (IZR 8) with 8. nra. }
  rewrite (fo_sample_value st1 d b2 p X N (Nn + 16)%Z) in Ev; [| | | |exact Cont2];
    try (change (@snum CR SR) with R; rewrite ?Lb2; destruct d; cbn [reach_lo win_width]; lia).
  injection Ev as <-.
  rewrite Eow. unfold write_prefix. change (@snum CR SR) with R in *.
  rewrite getz_app_l by (unfold zlen; lia).
  rewrite <- (Z2Nat.id k) at 1 by lia. rewrite (getz_nth_error 0 vals _ _ Hv).
  rewrite Epk. f_equal. lra.
Qed.

End Call.

(** * Whole streams *)
Section History.
Variable d : degree.
Variable c : nat.
Notation A := (@fo_arch CR SR d).
Notation ST := (@astate CR SR FO).

Fixpoint fo_stream (s : ST) (calls : list (list (list R) * list (list R))) : res (ST * Z * list R) :=
  match calls with
  | [] => Ok (s, 0%Z, [])
  | (wi, wo) :: rest =>
      do _ <- a_precheck A s wi wo None;
      do x <- pib A s wi wo None;
      let '(s', (a, b), outs) := x in
      do y <- fo_stream s' rest;
      let '(s'', nin, ys) := y in
      Ok (s'', (a + nin)%Z, firstn (Z.to_nat b) (nth c outs []) ++ ys)
  end.

(* the calls feed consecutive segments of X; each call is given (at least) the frames the resampler asks for.
   The number asked for is a function of the state, so the condition follows the run. *)
Fixpoint ofed (X : Z -> R) (N : Z) (s : ST) (calls : list (list (list R) * list (list R))) : Prop :=
  match calls with
  | [] => True
  | (wi, wo) :: rest =>
      (exists w, nth_error wi c = Some w /\ feeds w X N (oneeded s)) /\
      match pib A s wi wo None with
      | Ok (s', _, _) => ofed X (N + oneeded s) s' rest
      | _ => True
      end
  end.

Theorem fo_stream_R blen (X : Z -> R) : forall calls (s : ST) (N : Z),
  fo_wf blen s -> oholds s c X N -> ofed X N s calls ->
  match fo_stream s calls with
  | Ok (s', nin, ys) =>
      fo_wf blen s' /\ oholds s' c X (N + nin) /\ oC s' = oC s /\ oratio s' = oratio s /\
      oli s' = oli s + IZR (zlen ys) * / oratio s - IZR nin /\
      forall j, (0 <= j < zlen ys)%Z -> getR ys j = fast_spec d X (IZR N + oli s + IZR (j + 1) * / oratio s)
  | Err _ => True
  | Panic _ | UB _ | Diverge => False
  end.
Proof.
  induction calls as [|[wi wo] rest IH]; intros s N W Hh Hfed; cbn [fo_stream].
  - split; [exact W|]. split; [rewrite Z.add_0_r; exact Hh|]. split; [reflexivity|]. split; [reflexivity|].
    split; [unfold zlen; cbn; lra|]. intros j Hj. unfold zlen in Hj. cbn in Hj. lia.
  - cbn [ofed] in Hfed. destruct Hfed as [(w & Hw & Hfeed) Hrest].
    destruct (a_precheck A s wi wo None) as [[]| | | |] eqn:Ep; cbn [bind]; try exact I;
      try (destruct (a_precheck_total A s wi wo None) as [H|[e H]]; rewrite H in Ep; discriminate).
    destruct (fo_call_stream_R d blen s wi wo c X N w W Ep Hh Hw Hfeed)
      as (s' & outs & o & E & W' & Hn & Hli & HC & Hr & Hh' & Ho & Hlen & Hval).
    rewrite E in Hrest |- *. cbn [bind].
    specialize (IH s' (N + oneeded s)%Z W' Hh' Hrest).
    destruct (fo_stream s' rest) as [[[s'' nin] ys]| | | |]; cbn [bind]; try exact IH.
    destruct IH as (W'' & Hh'' & HC'' & Hr'' & Hli'' & Hval'').
    rewrite (nth_error_nth _ _ [] Ho). change (@snum CR SR) with R in *.
    assert (HC0 : (1 <= oC s)%Z) by (destruct W; assumption).
    assert (Lf : zlen (firstn (Z.to_nat (oC s)) o) = oC s) by (unfold zlen in *; rewrite firstn_length; lia).
    assert (Lys : zlen (firstn (Z.to_nat (oC s)) o ++ ys) = (oC s + zlen ys)%Z) by (unfold zlen in *; rewrite app_length; lia).
    split; [exact W''|]. split; [rewrite Z.add_assoc; exact Hh''|]. split; [congruence|]. split; [congruence|].
    split.
    + rewrite Lys, plus_IZR. rewrite Hli'', Hli, Hr, plus_IZR. lra.
    + intros j Hj. rewrite Lys in Hj. destruct (Z.lt_ge_cases j (oC s)) as [Hjn|Hjn].
      * rewrite getz_app_l by lia. rewrite getz_firstn by lia. apply Hval. lia.
      * rewrite getz_app_r by lia. rewrite Lf. rewrite Hval'' by lia. f_equal.
        rewrite Hli, Hr. replace (j - oC s + 1)%Z with ((j + 1) - oC s)%Z by lia. rewrite minus_IZR, !plus_IZR. lra.
Qed.

End History.

(** * From the constructor *)
Theorem fo_fresh_stream_R ratio0 maxrel d chunk nch s (c : nat) (X : Z -> R) calls :
  (1 <= chunk)%Z -> (0 <= nch)%Z -> (c < Z.to_nat nch)%nat ->
  @fast_out_new CR SR ratio0 maxrel d chunk nch = inr (RFastOut d s) ->
  (forall n, (n < 0)%Z -> X n = 0) ->
  ofed d c X 0 s calls ->
  match fo_stream d c s calls with
  | Ok (_, _, ys) => forall j, (0 <= j < zlen ys)%Z -> getR ys j = fast_spec d X (-4 + IZR (j + 1) * / ratio0)
  | Err _ => True
  | Panic _ | UB _ | Diverge => False
  end.
Proof.
  intros Hc Hn Hcn Hnew HX Hfed.
  destruct (fo_ctor_wf_R ratio0 maxrel d chunk nch s Hc Hn Hnew) as (blen & W & Hr).
  unfold fast_out_new in Hnew.
  destruct (validate_ratios_fast ratio0 maxrel); [discriminate|]. cbv zeta in Hnew. injection Hnew as Es.
  assert (Hl : oli s = -4).
  { rewrite <- Es. unfold oli. cbn [as_ctl].
    cbv [set_FastFixedOut_max_relative_ratio set_FastFixedOut_target_ratio set_FastFixedOut_resample_ratio_original
         set_FastFixedOut_resample_ratio set_FastFixedOut_current_buffer_fill set_FastFixedOut_last_index FastFixedOut_last_index].
    unfold fo_new_last_index, POLYNOMIAL_LEN_I. cbv [c_of_Z CR cnum]. change (IZR (- (8 ÷ 2))) with (-4). reflexivity. }
  assert (Hh : oholds s c X 0).
  { unfold oholds. set (F := ofill s). clearbody F. rewrite <- Es. cbn [as_buf]. unfold chans.
    eexists. split; [rewrite nth_error_repeat by exact Hcn; reflexivity|].
    intros i Hi. unfold zeros. cbn [szero SR]. rewrite getz_repeat_zero. symmetry. apply HX. lia. }
  generalize (fo_stream_R d c blen X calls s 0%Z W Hh Hfed).
  destruct (fo_stream d c s calls) as [[[s' nin] ys]| | | |]; try exact (fun x => x).
  intros (_ & _ & _ & _ & _ & Hval) j Hj. rewrite (Hval j Hj). f_equal. rewrite Hl, <- Hr. change (IZR 0) with 0. lra.
Qed.

(** the fixed-input and the fixed-output polynomial resampler with the same ratio and degree, any chunk
    sizes, fed the same signal: the two streams agree on their common prefix *)
Corollary fast_variant_independent_R ratio0 maxrel1 maxrel2 d chunk1 chunk2 nch1 nch2 s1 s2 c1 c2 (X : Z -> R) calls1 calls2 :
  (1 <= chunk1)%Z -> (1 <= chunk2)%Z -> (0 <= nch1)%Z -> (0 <= nch2)%Z -> (c1 < Z.to_nat nch1)%nat -> (c2 < Z.to_nat nch2)%nat ->
  @fast_in_new CR SR ratio0 maxrel1 d chunk1 nch1 = inr (RFastIn d s1) ->
  @fast_out_new CR SR ratio0 maxrel2 d chunk2 nch2 = inr (RFastOut d s2) ->
  (forall n, (n < 0)%Z -> X n = 0) ->
  fed c1 X 0 chunk1 calls1 -> ofed d c2 X 0 s2 calls2 ->
  forall r1 r2 ys1 ys2, fi_stream d c1 s1 calls1 = Ok (r1, ys1) -> fo_stream d c2 s2 calls2 = Ok (r2, ys2) ->
  forall j, (0 <= j < zlen ys1)%Z -> (j < zlen ys2)%Z -> getR ys1 j = getR ys2 j.
Proof.
  intros H1 H2 H3 H4 H5 H6 N1 N2 HX F1 F2 r1 r2 ys1 ys2 E1 E2 j Hj1 Hj2.
  generalize (fi_fresh_stream_R ratio0 maxrel1 d chunk1 nch1 s1 c1 X calls1 H1 H3 H5 N1 HX F1). rewrite E1. destruct r1 as [? ?]. intros V1.
  generalize (fo_fresh_stream_R ratio0 maxrel2 d chunk2 nch2 s2 c2 X calls2 H2 H4 H6 N2 HX F2). rewrite E2. destruct r2 as [? ?]. intros V2.
  rewrite V1, V2 by lia. reflexivity.
Qed.
