(** C04 in binary64: FastFixedIn's output_frames_next() never exceeds output_frames_max(),
    for every binary64 ratio the setters accept, by monotonicity of rounding (Flocq).
    The getters are the *generated* definitions of Gen/FastGen.v read in the bit-exact
    instance CB; overflow to +inf (saturating cast) is covered.                          *)

From Coq Require Import ZArith Reals Bool Lra Lia.
From Flocq Require Import Core BinarySingleNaN Mult_error.
From Rubato.Model Require Import Num Floats.
From Rubato.Gen Require Import FastGen.
From Rubato.Gen Require SincGen.
From Rubato.Proofs Require Import RatioBounds.
Local Open Scope R_scope.

Notation pinf := (B754_infinity false : f64).

(** non-negative, possibly +inf *)
Definition nn (x : f64) : Prop := x = pinf \/ (is_finite x = true /\ 0 <= B2R x).
(** x <= y on the non-negative extended line *)
Definition le64 (x y : f64) : Prop :=
  nn x /\ nn y /\ (y = pinf \/ (is_finite x = true /\ is_finite y = true /\ B2R x <= B2R y)).

Lemma fexp64_valid : Valid_exp fexp64.
Proof. change fexp64 with (FLT_exp (3 - 1024 - 53) 53). apply FLT_exp_valid. reflexivity. Qed.

Lemma RN64_nonneg a : 0 <= a -> 0 <= RN64 a.
Proof. intros H. rewrite <- (round_0 radix2 fexp64 ZnearestE). apply RN64_le. exact H. Qed.

Lemma pos_sign (x : f64) : is_finite x = true -> 0 < B2R x -> Bsign x = false.
Proof.
  destruct x as [s|s| |s m e Hb]; intros Hf Hp; try discriminate Hf.
  - cbn in Hp. lra.
  - destruct s; [|reflexivity]. exfalso.
    apply (Rlt_not_le _ _ Hp). left. unfold B2R. apply F2R_lt_0. cbn. lia.
Qed.

(** multiplication by a non-negative finite constant is monotone, overflow included *)
Lemma mult_mono (c x y : f64) :
  is_finite c = true -> 0 <= B2R c ->
  is_finite x = true -> is_finite y = true -> 0 <= B2R x <= B2R y ->
  le64 (Bmult mode_NE c x) (Bmult mode_NE c y).
Proof.
  intros Fc Pc Fx Fy Hxy.
  assert (Hrx : 0 <= RN64 (B2R c * B2R x)) by (apply RN64_nonneg; apply Rmult_le_pos; lra).
  assert (Hry : RN64 (B2R c * B2R x) <= RN64 (B2R c * B2R y)) by (apply RN64_le; apply Rmult_le_compat_l; lra).
  assert (Nx : nn (Bmult mode_NE c x) /\ (Rabs (RN64 (B2R c * B2R x)) < bpow radix2 1024 ->
               is_finite (Bmult mode_NE c x) = true /\ B2R (Bmult mode_NE c x) = RN64 (B2R c * B2R x))).
  { generalize (Bmult_correct 53 1024 _ _ mode_NE c x). cbn [round_mode].
    case Rlt_bool_spec; intros Hlt.
    - intros (E & F & _). rewrite Fc, Fx in F. split; [right; split; [exact F|rewrite E; exact Hrx]|]. intros _. split; [exact F|exact E].
    - intros E. assert (Hpos : 0 < B2R c * B2R x).
      { destruct (Rle_lt_or_eq_dec 0 (B2R c * B2R x)) as [H|H]; [apply Rmult_le_pos; lra|exact H|].
        exfalso. rewrite <- H, round_0, Rabs_R0 in Hlt by apply valid_rnd_N. generalize (bpow_gt_0 radix2 1024). lra. }
      assert (Sc : Bsign c = false) by (apply pos_sign; [exact Fc|]; destruct (Rle_lt_or_eq_dec 0 (B2R c) Pc) as [H|H]; [exact H|rewrite <- H in Hpos; lra]).
      assert (Sx : Bsign x = false) by (apply pos_sign; [exact Fx|]; destruct (Rle_lt_or_eq_dec 0 (B2R x) (proj1 Hxy)) as [H|H]; [exact H|rewrite <- H in Hpos; lra]).
      rewrite Sc, Sx in E. cbn in E.
      split; [left; apply B2SF_inj; exact E|]. intros Habs. lra. }
  assert (Ny : nn (Bmult mode_NE c y) /\ (Bmult mode_NE c y = pinf \/
               (Rabs (RN64 (B2R c * B2R y)) < bpow radix2 1024 /\ is_finite (Bmult mode_NE c y) = true /\ B2R (Bmult mode_NE c y) = RN64 (B2R c * B2R y)))).
  { generalize (Bmult_correct 53 1024 _ _ mode_NE c y). cbn [round_mode].
    case Rlt_bool_spec; intros Hlt.
    - intros (E & F & _). rewrite Fc, Fy in F. split; [right; split; [exact F|rewrite E; lra]|]. right. repeat split; assumption.
    - intros E. assert (Hpos : 0 < B2R c * B2R y).
      { destruct (Rle_lt_or_eq_dec 0 (B2R c * B2R y)) as [H|H]; [apply Rmult_le_pos; lra|exact H|].
        exfalso. rewrite <- H, round_0, Rabs_R0 in Hlt by apply valid_rnd_N. generalize (bpow_gt_0 radix2 1024). lra. }
      assert (Sc : Bsign c = false) by (apply pos_sign; [exact Fc|]; destruct (Rle_lt_or_eq_dec 0 (B2R c) Pc) as [H|H]; [exact H|rewrite <- H in Hpos; lra]).
      assert (Py : 0 <= B2R y) by lra.
      assert (Sy : Bsign y = false) by (apply pos_sign; [exact Fy|]; destruct (Rle_lt_or_eq_dec 0 (B2R y) Py) as [H|H]; [exact H|rewrite <- H in Hpos; lra]).
      rewrite Sc, Sy in E. cbn in E.
      assert (Ei : Bmult mode_NE c y = pinf) by (apply B2SF_inj; exact E).
      split; [left; exact Ei|left; exact Ei]. }
  destruct Nx as [Nx Hx]. destruct Ny as [Ny [Ey|(Habs & Fy' & Ey)]].
  - split; [exact Nx|]. split; [exact Ny|]. left. exact Ey.
  - assert (Hax : Rabs (RN64 (B2R c * B2R x)) < bpow radix2 1024).
    { rewrite Rabs_pos_eq by exact Hrx. rewrite Rabs_pos_eq in Habs by lra. lra. }
    destruct (Hx Hax) as [Fx' Ex].
    split; [exact Nx|]. split; [exact Ny|]. right. rewrite Ex, Ey. repeat split; assumption.
Qed.

(** multiplication of non-negative finite operands is monotone in both, overflow included *)
Lemma mult_mono2 (c d x y : f64) :
  is_finite c = true -> is_finite d = true -> 0 <= B2R c <= B2R d ->
  is_finite x = true -> is_finite y = true -> 0 <= B2R x <= B2R y ->
  le64 (Bmult mode_NE c x) (Bmult mode_NE d y).
Proof.
  intros Fc Fd Hcd Fx Fy Hxy. assert (Pc : 0 <= B2R c) by lra. assert (Pd : 0 <= B2R d) by lra.
  assert (Hrx : 0 <= RN64 (B2R c * B2R x)) by (apply RN64_nonneg; apply Rmult_le_pos; lra).
  assert (Hry : RN64 (B2R c * B2R x) <= RN64 (B2R d * B2R y)) by (apply RN64_le; apply Rmult_le_compat; lra).
  assert (Nx : nn (Bmult mode_NE c x) /\ (Rabs (RN64 (B2R c * B2R x)) < bpow radix2 1024 ->
               is_finite (Bmult mode_NE c x) = true /\ B2R (Bmult mode_NE c x) = RN64 (B2R c * B2R x))).
  { generalize (Bmult_correct 53 1024 _ _ mode_NE c x). cbn [round_mode].
    case Rlt_bool_spec; intros Hlt.
    - intros (E & F & _). rewrite Fc, Fx in F. split; [right; split; [exact F|rewrite E; exact Hrx]|]. intros _. split; [exact F|exact E].
    - intros E. assert (Hpos : 0 < B2R c * B2R x).
      { destruct (Rle_lt_or_eq_dec 0 (B2R c * B2R x)) as [H|H]; [apply Rmult_le_pos; lra|exact H|].
        exfalso. rewrite <- H, round_0, Rabs_R0 in Hlt by apply valid_rnd_N. generalize (bpow_gt_0 radix2 1024). lra. }
      assert (Sc : Bsign c = false) by (apply pos_sign; [exact Fc|]; destruct (Rle_lt_or_eq_dec 0 (B2R c) Pc) as [H|H]; [exact H|rewrite <- H in Hpos; lra]).
      assert (Sx : Bsign x = false) by (apply pos_sign; [exact Fx|]; destruct (Rle_lt_or_eq_dec 0 (B2R x) (proj1 Hxy)) as [H|H]; [exact H|rewrite <- H in Hpos; lra]).
      rewrite Sc, Sx in E. cbn in E.
      split; [left; apply B2SF_inj; exact E|]. intros Habs. lra. }
  assert (Ny : nn (Bmult mode_NE d y) /\ (Bmult mode_NE d y = pinf \/
               (Rabs (RN64 (B2R d * B2R y)) < bpow radix2 1024 /\ is_finite (Bmult mode_NE d y) = true /\ B2R (Bmult mode_NE d y) = RN64 (B2R d * B2R y)))).
  { generalize (Bmult_correct 53 1024 _ _ mode_NE d y). cbn [round_mode].
    case Rlt_bool_spec; intros Hlt.
    - intros (E & F & _). rewrite Fd, Fy in F. split; [right; split; [exact F|rewrite E; lra]|]. right. repeat split; assumption.
    - intros E. assert (Hpos : 0 < B2R d * B2R y).
      { destruct (Rle_lt_or_eq_dec 0 (B2R d * B2R y)) as [H|H]; [apply Rmult_le_pos; lra|exact H|].
        exfalso. rewrite <- H, round_0, Rabs_R0 in Hlt by apply valid_rnd_N. generalize (bpow_gt_0 radix2 1024). lra. }
      assert (Sc : Bsign d = false) by (apply pos_sign; [exact Fd|]; destruct (Rle_lt_or_eq_dec 0 (B2R d) Pd) as [H|H]; [exact H|rewrite <- H in Hpos; lra]).
      assert (Py : 0 <= B2R y) by lra.
      assert (Sy : Bsign y = false) by (apply pos_sign; [exact Fy|]; destruct (Rle_lt_or_eq_dec 0 (B2R y) Py) as [H|H]; [exact H|rewrite <- H in Hpos; lra]).
      rewrite Sc, Sy in E. cbn in E.
      assert (Ei : Bmult mode_NE d y = pinf) by (apply B2SF_inj; exact E).
      split; [left; exact Ei|left; exact Ei]. }
  destruct Nx as [Nx Hx]. destruct Ny as [Ny [Ey|(Habs & Fy' & Ey)]].
  - split; [exact Nx|]. split; [exact Ny|]. left. exact Ey.
  - assert (Hax : Rabs (RN64 (B2R c * B2R x)) < bpow radix2 1024).
    { rewrite Rabs_pos_eq by exact Hrx. rewrite Rabs_pos_eq in Habs by lra. lra. }
    destruct (Hx Hax) as [Fx' Ex].
    split; [exact Nx|]. split; [exact Ny|]. right. rewrite Ex, Ey. repeat split; assumption.
Qed.

(** adding a non-negative finite constant is monotone on the extended line *)
Lemma plus_mono (x y k : f64) :
  is_finite k = true -> 0 <= B2R k -> le64 x y -> le64 (Bplus mode_NE x k) (Bplus mode_NE y k).
Proof.
  intros Fk Pk (Nx & Ny & H).
  assert (Hinf : forall k', is_finite k' = true -> Bplus mode_NE pinf k' = pinf).
  { intros k' Fk'. destruct k' as [s|s| |s m e Hb]; try discriminate; reflexivity. }
  assert (fin_case : forall z, is_finite z = true -> 0 <= B2R z ->
            nn (Bplus mode_NE z k) /\ (Bplus mode_NE z k = pinf \/
              (Rabs (RN64 (B2R z + B2R k)) < bpow radix2 1024 /\ is_finite (Bplus mode_NE z k) = true /\ B2R (Bplus mode_NE z k) = RN64 (B2R z + B2R k)))).
  { intros z Fz Pz. generalize (Bplus_correct 53 1024 _ _ mode_NE z k Fz Fk). cbn [round_mode].
    case Rlt_bool_spec; intros Hlt.
    - intros (E & F & _). split; [right; split; [exact F|rewrite E; apply RN64_nonneg; lra]|]. right. repeat split; assumption.
    - intros (E & Es).
      assert (Hpos : 0 < B2R z + B2R k).
      { destruct (Rle_lt_or_eq_dec 0 (B2R z + B2R k)) as [H0|H0]; [lra|exact H0|].
        exfalso. rewrite <- H0, round_0, Rabs_R0 in Hlt by apply valid_rnd_N. generalize (bpow_gt_0 radix2 1024). lra. }
      assert (Sz : Bsign z = false).
      { destruct (Rle_lt_or_eq_dec 0 (B2R z) Pz) as [H0|H0]; [apply pos_sign; assumption|].
        rewrite Es. apply pos_sign; [exact Fk|lra]. }
      rewrite Sz in E. cbn in E.
      assert (Ei : Bplus mode_NE z k = pinf) by (apply B2SF_inj; exact E).
      split; left; exact Ei. }
  destruct H as [Ey|(Fx & Fy & Hle)].
  - subst y. rewrite (Hinf k Fk).
    split; [|split; [left; reflexivity|left; reflexivity]].
    destruct Nx as [Ex|[Fx Px]]; [subst x; rewrite (Hinf k Fk); left; reflexivity|].
    apply (fin_case x Fx Px).
  - assert (Px : 0 <= B2R x) by (destruct Nx as [Ex|[_ P]]; [subst x; discriminate|exact P]).
    assert (Py : 0 <= B2R y) by lra.
    destruct (fin_case x Fx Px) as [Nx' Hx]. destruct (fin_case y Fy Py) as [Ny' Hy].
    split; [exact Nx'|]. split; [exact Ny'|].
    destruct Hy as [Ey|(Hay & Fy' & Ey)]; [left; exact Ey|]. right.
    assert (Hm : RN64 (B2R x + B2R k) <= RN64 (B2R y + B2R k)) by (apply RN64_le; lra).
    assert (H0 : 0 <= RN64 (B2R x + B2R k)) by (apply RN64_nonneg; lra).
    destruct Hx as [Ex|(Hax & Fx' & Ex)].
    + (* x + k overflows but y + k does not: impossible *)
      exfalso.
      generalize (Bplus_correct 53 1024 _ _ mode_NE x k Fx Fk). cbn [round_mode].
      rewrite Rlt_bool_true.
      * intros (_ & F & _). rewrite Ex in F. discriminate.
      * rewrite Rabs_pos_eq by exact H0. rewrite Rabs_pos_eq in Hay by lra. lra.
    + rewrite Ex, Ey. repeat split; assumption.
Qed.

(** the saturating cast to usize is monotone on the extended line *)
Lemma to_usize_mono (x y : f64) : le64 x y ->
  (b_to_int 53 1024 0 usize_max x <= b_to_int 53 1024 0 usize_max y)%Z.
Proof.
  intros (Nx & Ny & H).
  assert (Hub : forall z, (b_to_int 53 1024 0 usize_max z <= usize_max)%Z).
  { intros z. unfold b_to_int. destruct z as [s|s| |s m e Hb]; cbv zeta; unfold usize_max;
      try (destruct s; lia); try lia;
      repeat match goal with |- context [if ?b then _ else _] => destruct b eqn:? end; lia. }
  destruct H as [Ey|(Fx & Fy & Hle)].
  - subst y. cbn [b_to_int]. apply Hub.
  - assert (Ht : (Btrunc x <= Btrunc y)%Z).
    { apply le_IZR. rewrite !(Btrunc_correct 53 1024 _).
      apply round_le; [apply FIX_exp_valid|apply valid_rnd_ZR|exact Hle]. }
    unfold b_to_int.
    destruct x as [sx|sx| |sx mx ex Hbx]; try discriminate Fx;
    destruct y as [sy|sy| |sy my ey Hby]; try discriminate Fy; cbv zeta;
    repeat match goal with |- context [(?a <? ?b)%Z] => destruct (Z.ltb_spec a b) end; unfold usize_max in *; lia.
Qed.

Lemma int_format64 (k : Z) : (Z.abs k < 2 ^ 53)%Z -> generic_format radix2 fexp64 (IZR k).
Proof.
  intros Hk. replace (IZR k) with (F2R (Float radix2 k 0)) by (unfold F2R; simpl; ring).
  apply generic_format_F2R. intros Hk0. unfold cexp, SpecFloat.fexp.
  replace (F2R (Float radix2 k 0)) with (IZR k) by (unfold F2R; simpl; ring).
  assert (Hm : (mag radix2 (IZR k) <= 53)%Z).
  { apply mag_le_bpow; [apply IZR_neq; exact Hk0|]. rewrite <- abs_IZR. change (bpow radix2 53) with (IZR (2 ^ 53)). apply IZR_lt. exact Hk. }
  unfold SpecFloat.emin. lia.
Qed.

Lemma b64_of_Z_exact (a : Z) : (Z.abs a < 2 ^ 53)%Z ->
  B2R (b_of_Z 53 1024 a) = IZR a /\ is_finite (b_of_Z 53 1024 a) = true.
Proof.
  intros Ha. unfold b_of_Z.
  generalize (binary_normalize_correct 53 1024 _ _ mode_NE a 0 false). cbv zeta.
  replace (F2R (Float radix2 a 0)) with (IZR a) by (unfold F2R; simpl; ring).
  change (round_mode mode_NE) with (Znearest (fun x => negb (Z.even x))).
  rewrite (round_generic radix2 fexp64 _ (IZR a) (int_format64 a Ha)).
  rewrite Rlt_bool_true.
  - intros (H1 & H2 & _). split; assumption.
  - rewrite <- abs_IZR. apply Rlt_trans with (IZR (2 ^ 53)); [apply IZR_lt; exact Ha|].
    change (IZR (2 ^ 53)) with (bpow radix2 53). apply bpow_lt. lia.
Qed.

(** ** FastFixedIn: output_frames_next <= output_frames_max in binary64 *)
Theorem fi_next_le_max_B64 (st : @FastFixedIn CB) :
  let orig := FastFixedIn_resample_ratio_original st in
  let maxrel := FastFixedIn_max_relative_ratio st in
  let hi := Bmult mode_NE orig maxrel in
  let r := FastFixedIn_resample_ratio st in
  let g := FastFixedIn_target_ratio st in
  (0 <= FastFixedIn_chunk_size st < 2 ^ 53)%Z ->
  is_finite hi = true -> bpow radix2 (-1021) <= B2R hi ->
  is_finite r = true -> is_finite g = true ->
  0 <= B2R r <= B2R hi -> 0 <= B2R g <= B2R hi ->
  (@fi_output_frames_next CB st <= @fi_output_frames_max CB st)%Z.
Proof.
  intros orig maxrel hi r g Hc Fhi Hhi Fr Fg Hr Hg.
  unfold fi_output_frames_next, fi_output_frames_max.
  cbn [c_to_usize cadd cmul c_of_Z c_lit CB].
  fold orig maxrel r g. fold hi.
  apply to_usize_mono.
  set (half := b_lit 53 1024 1 (-1)).
  set (ten := b_lit 53 1024 5 1).
  set (c := b_of_Z 53 1024 (FastFixedIn_chunk_size st)).
  assert (Fhalf : is_finite half = true) by reflexivity.
  assert (Ehalf : B2R half = / 2) by (unfold half; cbv; lra).
  assert (Ften : is_finite ten = true) by reflexivity.
  assert (Eten : B2R ten = 10) by (unfold ten; cbv; lra).
  (* the chunk size converts exactly *)
  assert (Hcz : is_finite c = true /\ B2R c = IZR (FastFixedIn_chunk_size st)).
  { unfold c. destruct (b64_of_Z_exact (FastFixedIn_chunk_size st)) as [E F]; [lia|]. split; assumption. }
  destruct Hcz as [Fc Ec].
  assert (Pc : 0 <= B2R c) by (rewrite Ec; apply IZR_le; lia).
  (* 0.5 r + 0.5 g <= hi *)
  assert (Hhalf : forall v, is_finite v = true -> 0 <= B2R v <= B2R hi ->
            is_finite (Bmult mode_NE half v) = true /\ 0 <= B2R (Bmult mode_NE half v) <= B2R hi / 2).
  { intros v Fv Hv.
    assert (Hfm : generic_format radix2 fexp64 (B2R hi * bpow radix2 (-1))).
    { change fexp64 with (FLT_exp (3 - 1024 - 53) 53).
      apply mult_bpow_exact_FLT; [apply generic64|].
      cut (-1021 < mag radix2 (B2R hi))%Z; [lia|].
      apply mag_gt_bpow. rewrite Rabs_pos_eq by (generalize (bpow_gt_0 radix2 (-1021)); lra). exact Hhi. }
    assert (Hex : RN64 (/ 2 * B2R hi) = B2R hi / 2).
    { replace (/ 2 * B2R hi) with (B2R hi * bpow radix2 (-1)) by (cbn; lra).
      rewrite round_generic by (apply valid_rnd_N || exact Hfm). cbn. lra. }
    generalize (Bmult_correct 53 1024 _ _ mode_NE half v). cbn [round_mode]. rewrite Ehalf.
    assert (Hb : 0 <= RN64 (/ 2 * B2R v) <= B2R hi / 2).
    { split; [apply RN64_nonneg; lra|]. rewrite <- Hex. apply RN64_le. lra. }
    rewrite Rlt_bool_true.
    - intros (E & F & _). rewrite Fhalf, Fv in F. split; [exact F|rewrite E; exact Hb].
    - rewrite Rabs_pos_eq by apply Hb. eapply Rle_lt_trans; [apply Hb|].
      assert (B2R hi < bpow radix2 1024) by (eapply Rle_lt_trans; [apply Rle_abs|apply abs_B2R_lt_emax]). lra. }
  destruct (Hhalf r Fr Hr) as [Fa Ha]. destruct (Hhalf g Fg Hg) as [Fb Hb].
  set (a := Bmult mode_NE half r) in *. set (b := Bmult mode_NE half g) in *.
  assert (Hsum : is_finite (Bplus mode_NE a b) = true /\ 0 <= B2R (Bplus mode_NE a b) <= B2R hi).
  { generalize (Bplus_correct 53 1024 _ _ mode_NE a b Fa Fb). cbn [round_mode].
    assert (Hs : 0 <= RN64 (B2R a + B2R b) <= B2R hi).
    { split; [apply RN64_nonneg; lra|]. rewrite <- (RN64_id hi). apply RN64_le. lra. }
    rewrite Rlt_bool_true.
    - intros (E & F & _). split; [exact F|rewrite E; exact Hs].
    - rewrite Rabs_pos_eq by apply Hs. eapply Rle_lt_trans; [apply Hs|].
      eapply Rle_lt_trans; [apply Rle_abs|apply abs_B2R_lt_emax]. }
  destruct Hsum as [Fs Hs].
  apply plus_mono; [exact Ften|rewrite Eten; lra|].
  apply mult_mono; try assumption.
Qed.

(** the mean of two ratios below the bound is below the bound, in binary64 *)
Lemma half_sum_le (hi r g : f64) :
  is_finite hi = true -> bpow radix2 (-1021) <= B2R hi ->
  is_finite r = true -> is_finite g = true -> 0 <= B2R r <= B2R hi -> 0 <= B2R g <= B2R hi ->
  let half := b_lit 53 1024 1 (-1) in
  let m := Bplus mode_NE (Bmult mode_NE half r) (Bmult mode_NE half g) in
  is_finite m = true /\ 0 <= B2R m <= B2R hi.
Proof.
  intros Fhi Hhi Fr Fg Hr Hg half m. unfold m.
  assert (Fhalf : is_finite half = true) by reflexivity.
  assert (Ehalf : B2R half = / 2) by (unfold half; cbv; lra).
  assert (Hhalf : forall v, is_finite v = true -> 0 <= B2R v <= B2R hi ->
            is_finite (Bmult mode_NE half v) = true /\ 0 <= B2R (Bmult mode_NE half v) <= B2R hi / 2).
  { intros v Fv Hv.
    assert (Hfm : generic_format radix2 fexp64 (B2R hi * bpow radix2 (-1))).
    { change fexp64 with (FLT_exp (3 - 1024 - 53) 53).
      apply mult_bpow_exact_FLT; [apply generic64|].
      cut (-1021 < mag radix2 (B2R hi))%Z; [lia|].
      apply mag_gt_bpow. rewrite Rabs_pos_eq by (generalize (bpow_gt_0 radix2 (-1021)); lra). exact Hhi. }
    assert (Hex : RN64 (/ 2 * B2R hi) = B2R hi / 2).
    { replace (/ 2 * B2R hi) with (B2R hi * bpow radix2 (-1)) by (cbn; lra).
      rewrite round_generic by (apply valid_rnd_N || exact Hfm). cbn. lra. }
    generalize (Bmult_correct 53 1024 _ _ mode_NE half v). cbn [round_mode]. rewrite Ehalf.
    assert (Hb : 0 <= RN64 (/ 2 * B2R v) <= B2R hi / 2).
    { split; [apply RN64_nonneg; lra|]. rewrite <- Hex. apply RN64_le. lra. }
    rewrite Rlt_bool_true.
    - intros (E & F & _). rewrite Fhalf, Fv in F. split; [exact F|rewrite E; exact Hb].
    - rewrite Rabs_pos_eq by apply Hb. eapply Rle_lt_trans; [apply Hb|].
      assert (B2R hi < bpow radix2 1024) by (eapply Rle_lt_trans; [apply Rle_abs|apply abs_B2R_lt_emax]). lra. }
  destruct (Hhalf r Fr Hr) as [Fa Ha]. destruct (Hhalf g Fg Hg) as [Fb Hb].
  set (a := Bmult mode_NE half r) in *. set (b := Bmult mode_NE half g) in *.
  generalize (Bplus_correct 53 1024 _ _ mode_NE a b Fa Fb). cbn [round_mode].
  assert (Hs : 0 <= RN64 (B2R a + B2R b) <= B2R hi).
  { split; [apply RN64_nonneg; lra|]. rewrite <- (RN64_id hi). apply RN64_le. lra. }
  rewrite Rlt_bool_true.
  - intros (E & F & _). split; [exact F|rewrite E; exact Hs].
  - rewrite Rabs_pos_eq by apply Hs. eapply Rle_lt_trans; [apply Hs|].
    eapply Rle_lt_trans; [apply Rle_abs|apply abs_B2R_lt_emax].
Qed.

(** ** SincFixedIn: the needed output length (output_frames_next) never exceeds output_frames_max in binary64,
    at any chunk size up to the maximum *)
Theorem si_next_le_max_B64 (st : @SincGen.SincFixedIn CB) :
  let orig := SincGen.SincFixedIn_resample_ratio_original st in
  let maxrel := SincGen.SincFixedIn_max_relative_ratio st in
  let hi := Bmult mode_NE orig maxrel in
  let r := SincGen.SincFixedIn_resample_ratio st in
  let g := SincGen.SincFixedIn_target_ratio st in
  (0 <= SincGen.SincFixedIn_chunk_size st <= SincGen.SincFixedIn_max_chunk_size st)%Z ->
  (SincGen.SincFixedIn_max_chunk_size st < 2 ^ 53)%Z ->
  is_finite hi = true -> bpow radix2 (-1021) <= B2R hi ->
  is_finite r = true -> is_finite g = true ->
  0 <= B2R r <= B2R hi -> 0 <= B2R g <= B2R hi ->
  (@SincGen.si_calc_needed_len CB st <= @SincGen.si_output_frames_max CB st)%Z.
Proof.
  intros orig maxrel hi r g Hc Hmx Fhi Hhi Fr Fg Hr Hg.
  unfold SincGen.si_calc_needed_len, SincGen.si_output_frames_max.
  cbn [c_to_usize cadd cmul c_of_Z c_lit CB].
  fold orig maxrel r g. fold hi.
  apply to_usize_mono.
  destruct (half_sum_le hi r g Fhi Hhi Fr Fg Hr Hg) as [Fs Hs]. cbv zeta in Fs, Hs.
  destruct (b64_of_Z_exact (SincGen.SincFixedIn_chunk_size st)) as [Ec Fc]; [lia|].
  destruct (b64_of_Z_exact (SincGen.SincFixedIn_max_chunk_size st)) as [Ed Fd]; [lia|].
  apply plus_mono; [reflexivity|cbv; lra|].
  apply mult_mono2; try assumption.
  all: try (rewrite Ec, Ed; split; apply IZR_le; lia).
  all: try (split; [apply Hs|lra]).
Qed.

(** ... for every state whose two ratios passed the (generated) accept test of set_resample_ratio,
    on a resampler whose (original, max) passed the (generated) constructor validation *)
Corollary fi_next_le_max_accepted_B64 (st : @FastFixedIn CB) :
  let orig := FastFixedIn_resample_ratio_original st in
  let maxrel := FastFixedIn_max_relative_ratio st in
  ctor_ok orig maxrel ->
  (0 <= FastFixedIn_chunk_size st < 2 ^ 53)%Z ->
  bpow radix2 (-1021) <= B2R (hi64 orig maxrel) ->
  @fi_set_ratio_accept CB st (FastFixedIn_resample_ratio st) = true ->
  @fi_set_ratio_accept CB st (FastFixedIn_target_ratio st) = true ->
  (@fi_output_frames_next CB st <= @fi_output_frames_max CB st)%Z.
Proof.
  intros orig maxrel Hok Hc Hhi Hr Hg.
  destruct (lo_hi_facts _ _ Hok) as (_ & Fhi & _ & _ & Plo & _).
  apply (set_ratio_accept_iff_fast_in st _ Hok) in Hr. apply (set_ratio_accept_iff_fast_in st _ Hok) in Hg.
  destruct Hr as (Fr & Hr1 & Hr2). destruct Hg as (Fg & Hg1 & Hg2).
  fold orig maxrel in Hr1, Hr2, Hg1, Hg2, Plo.
  apply fi_next_le_max_B64; try assumption; fold orig maxrel; unfold hi64 in *; split; lra.
Qed.

(* non-vacuity: original ratio 1, max relative ratio 2, both ratios at the upper bound *)
Example fi_next_le_max_example :
  let orig := one64 in
  let maxrel := b_lit 53 1024 1 1 in
  ctor_ok orig maxrel /\ bpow radix2 (-1021) <= B2R (hi64 orig maxrel) /\
  accept64 orig maxrel (hi64 orig maxrel) = true.
Proof.
  cbv zeta.
  assert (Hok : ctor_ok one64 (b_lit 53 1024 1 1)) by (unfold ctor_ok; repeat split; vm_compute; reflexivity).
  split; [exact Hok|split].
  - destruct (lo_hi_facts _ _ Hok) as (_ & _ & _ & _ & _ & _ & H).
    rewrite B2R_one64 in H. apply Rle_trans with 1; [|exact H].
    change 1 with (bpow radix2 0). apply bpow_le. lia.
  - vm_compute. reflexivity.
Qed.
