(** C04 (ideal arithmetic): the advertised "next" sizes never exceed the advertised "max" sizes
    while the ratio stays inside the range the setters accept.                          *)

From Coq Require Import ZArith Reals List Bool Lra Lia.
From Flocq Require Import Core.
From Rubato.Model Require Import Num Reals Base Async.
From Rubato.Gen Require Import FastGen SincGen.
From Rubato.Proofs Require Import RampsR FastInR FastOutR FastCtorR.
Local Open Scope R_scope.

Lemma Ztrunc_mono x y : x <= y -> (Ztrunc x <= Ztrunc y)%Z.
Proof. apply Ztrunc_le. Qed.

(** FastFixedIn / SincFixedIn: output_frames_next <= output_frames_max *)
Theorem fi_next_le_max_R (st : @FastFixedIn CR) :
  (0 <= FastFixedIn_chunk_size st)%Z ->
  FastFixedIn_resample_ratio st <= FastFixedIn_resample_ratio_original st * FastFixedIn_max_relative_ratio st ->
  FastFixedIn_target_ratio st <= FastFixedIn_resample_ratio_original st * FastFixedIn_max_relative_ratio st ->
  (@fi_output_frames_next CR st <= @fi_output_frames_max CR st)%Z.
Proof.
  intros HC H1 H2. unfold fi_output_frames_next, fi_output_frames_max.
  change (@c_to_usize CR) with (fun x : R => Z.max 0 (Ztrunc x)). cbv beta. rnorm.
  apply Z.max_le_compat_l. apply Ztrunc_mono.
  assert (0 <= IZR (FastFixedIn_chunk_size st)) by (apply IZR_le; lia).
  apply Rplus_le_compat_r. apply Rmult_le_compat_l; [assumption|]. lra.
Qed.

Theorem si_next_le_max_R (st : @SincFixedIn CR) :
  (0 <= SincFixedIn_chunk_size st <= SincFixedIn_max_chunk_size st)%Z ->
  0 <= SincFixedIn_resample_ratio st -> 0 <= SincFixedIn_target_ratio st ->
  SincFixedIn_resample_ratio st <= SincFixedIn_resample_ratio_original st * SincFixedIn_max_relative_ratio st ->
  SincFixedIn_target_ratio st <= SincFixedIn_resample_ratio_original st * SincFixedIn_max_relative_ratio st ->
  (@si_calc_needed_len CR st <= @si_output_frames_max CR st)%Z.
Proof.
  intros HC P1 P2 H1 H2. unfold si_calc_needed_len, si_output_frames_max.
  change (@c_to_usize CR) with (fun x : R => Z.max 0 (Ztrunc x)). cbv beta. rnorm.
  apply Z.max_le_compat_l. apply Ztrunc_mono.
  assert (0 <= IZR (SincFixedIn_chunk_size st) <= IZR (SincFixedIn_max_chunk_size st)) by (split; apply IZR_le; lia).
  apply Rplus_le_compat_r.
  apply Rle_trans with (IZR (SincFixedIn_chunk_size st) * (SincFixedIn_resample_ratio_original st * SincFixedIn_max_relative_ratio st)).
  - apply Rmult_le_compat_l; lra.
  - apply Rmult_le_compat_r; [|lra]. lra.
Qed.

(** FastFixedOut: input_frames_next <= input_frames_max under the call invariant *)
Theorem fo_next_le_max_R blen (s : @astate CR SR (@FastFixedOut CR)) :
  fo_wf blen s -> let st := as_ctl s in
  0 < FastFixedOut_resample_ratio_original st -> 0 < FastFixedOut_max_relative_ratio st ->
  FastFixedOut_resample_ratio_original st / FastFixedOut_max_relative_ratio st <= FastFixedOut_resample_ratio st ->
  (@fo_input_frames_next CR st <= @fo_input_frames_max CR st)%Z.
Proof.
  intros W st Ho Hm Hlo. destruct W as [WC _ _ _ _ Wr _ Wli Wnd _ _].
  unfold oC, oratio, oli, oneeded in *. fold st in WC, Wr, Wli, Wnd.
  unfold fo_input_frames_next, fo_input_frames_max, POLYNOMIAL_LEN_U. rewrite Wnd.
  change (@c_to_usize CR) with (fun x : R => Z.max 0 (Ztrunc x)). change (@cceil CR) with (fun x : R => IZR (Zceil x)). cbv beta. rnorm.
  rewrite Ztrunc_IZR_id. change (8 ÷ 2)%Z with 4%Z.
  set (C := IZR (FastFixedOut_chunk_size st)) in *.
  set (r := FastFixedOut_resample_ratio st) in *.
  set (o := FastFixedOut_resample_ratio_original st) in *.
  set (m := FastFixedOut_max_relative_ratio st) in *.
  assert (HC : 1 <= C) by (apply IZR_le; lia).
  assert (Hx : C * / r <= C / o * m).
  { assert (/ r <= m / o).
    { assert (0 < o / m) by (apply Rdiv_lt_0_compat; lra).
      apply Rle_trans with (/ (o / m)); [apply Rinv_le_contravar; lra|].
      right. field. split; lra. }
    unfold Rdiv in *. nra. }
  assert (Zceil (FastFixedOut_last_index st + C * / r + 8) <= Zceil (C / o * m) + 4)%Z.
  { apply Zceil_glb. rewrite plus_IZR. generalize (Zceil_ub (C / o * m)). change (IZR 4) with 4. lra. }
  lia.
Qed.
