(** The f32 quotients of the synchronous resamplers' control arithmetic, in the bit-exact arithmetic:
    for integers 0 <= a < 2^24 and 1 <= b < 2^24,
      (a as f32 / b as f32).ceil()  as usize = ceil(a / b)    and    (a as f32 / b as f32).floor() as usize = floor(a / b),
    computed with Flocq's binary32 (round to nearest even).  Hence "the f32 quotient read as the real quotient" (the
    reading used by FftInR / FftOutR) is exact for all sizes below 2^24 frames.                                       *)

From Coq Require Import ZArith Reals Lra Lia.
From Flocq Require Import Core BinarySingleNaN.
From Rubato.Model Require Import Num Floats.
Local Open Scope R_scope.

Notation fexp32 := (FLT_exp (3 - 128 - 24) 24).
Notation rnd32 := (round radix2 fexp32 (Znearest (fun x => negb (Z.even x)))).

(** the rounding error of a/b is below 1/b *)
Lemma half_ulp_small (x : R) : 0 < x -> / 2 * ulp radix2 fexp32 x <= Rmax (x * bpow radix2 (-24)) (bpow radix2 (-25)).
Proof.
  intros Hx. rewrite ulp_neq_0 by lra. unfold cexp, FLT_exp.
  destruct (Z_le_gt_dec (3 - 128 - 24) (mag radix2 x - 24)) as [H|H].
  - rewrite Z.max_l by exact H. eapply Rle_trans; [|apply Rmax_l].
    replace (mag radix2 x - 24)%Z with ((mag radix2 x - 1) + (-23))%Z by lia. rewrite bpow_plus.
    assert (Hm : bpow radix2 (mag radix2 x - 1) <= x).
    { generalize (bpow_mag_le radix2 x ltac:(lra)). rewrite Rabs_pos_eq by lra. exact (fun h => h). }
    replace (bpow radix2 (-24)) with (/ 2 * bpow radix2 (-23)).
    2:{ change (-23)%Z with (1 + -24)%Z. rewrite bpow_plus. change (bpow radix2 1) with 2. field. }
    assert (0 < bpow radix2 (-23)) by apply bpow_gt_0. nra.
  - rewrite Z.max_r by lia. eapply Rle_trans; [|apply Rmax_r].
    change (-25)%Z with (-1 + -24)%Z. rewrite bpow_plus. change (bpow radix2 (-1)) with (/ 2).
    apply Rmult_le_compat_l; [lra|]. apply bpow_le. lia.
Qed.

Lemma quot_error (a b : Z) : (0 <= a < 2 ^ 24)%Z -> (1 <= b < 2 ^ 24)%Z ->
  Rabs (rnd32 (IZR a / IZR b) - IZR a / IZR b) < / IZR b.
Proof.
  intros Ha Hb.
  assert (Hb1 : 1 <= IZR b) by (apply IZR_le; lia).
  assert (Hb2 : IZR b < bpow radix2 24) by (change (bpow radix2 24) with (IZR (2 ^ 24)); apply IZR_lt; lia).
  assert (Ha2 : IZR a < bpow radix2 24) by (change (bpow radix2 24) with (IZR (2 ^ 24)); apply IZR_lt; lia).
  assert (Hib : 0 < / IZR b) by (apply Rinv_0_lt_compat; lra).
  destruct (Z.eq_dec a 0) as [->|Hne].
  - unfold Rdiv. rewrite Rmult_0_l, round_0 by auto with typeclass_instances. rewrite Rminus_0_r, Rabs_R0. exact Hib.
  - assert (Ha1 : 1 <= IZR a) by (apply IZR_le; lia).
    set (x := IZR a / IZR b). assert (Hx : 0 < x) by (unfold x, Rdiv; nra).
    eapply Rle_lt_trans; [apply error_le_half_ulp; auto with typeclass_instances|].
    eapply Rle_lt_trans; [apply half_ulp_small; exact Hx|].
    assert (E24 : bpow radix2 24 * bpow radix2 (-24) = 1) by (rewrite <- bpow_plus; reflexivity).
    assert (P24 : 0 < bpow radix2 (-24)) by apply bpow_gt_0.
    apply Rmax_lub_lt.
    + unfold x, Rdiv. replace (IZR a * / IZR b * bpow radix2 (-24)) with ((IZR a * bpow radix2 (-24)) * / IZR b) by ring.
      rewrite <- (Rmult_1_l (/ IZR b)) at 2. apply Rmult_lt_compat_r; [exact Hib|]. nra.
    + assert (bpow radix2 (-25) < bpow radix2 (-24)) by (apply bpow_lt; lia).
      assert (bpow radix2 (-24) < / IZR b).
      { apply Rmult_lt_reg_r with (IZR b); [lra|]. rewrite Rinv_l by lra. nra. }
      lra.
Qed.

(** integers below 2^24 are binary32 numbers *)
Lemma int_format (k : Z) : (Z.abs k < 2 ^ 24)%Z -> generic_format radix2 fexp32 (IZR k).
Proof.
  intros Hk. replace (IZR k) with (F2R (Float radix2 k 0)) by (unfold F2R; simpl; ring).
  apply generic_format_F2R. intros Hk0. unfold cexp, FLT_exp.
  replace (F2R (Float radix2 k 0)) with (IZR k) by (unfold F2R; simpl; ring).
  assert (Hm : (mag radix2 (IZR k) <= 24)%Z).
  { apply mag_le_bpow; [apply IZR_neq; exact Hk0|]. rewrite <- abs_IZR. change (bpow radix2 24) with (IZR (2 ^ 24)). apply IZR_lt. exact Hk. }
  lia.
Qed.

Lemma quot_ceil (a b : Z) : (0 <= a < 2 ^ 24)%Z -> (1 <= b < 2 ^ 24)%Z ->
  Zceil (rnd32 (IZR a / IZR b)) = Zceil (IZR a / IZR b).
Proof.
  intros Ha Hb. pose proof (quot_error a b Ha Hb) as He. apply Rabs_def2 in He.
  assert (Hb1 : 1 <= IZR b) by (apply IZR_le; lia).
  set (x := IZR a / IZR b) in *. set (k := Zceil x).
  assert (Hk1 : IZR k - 1 < x <= IZR k) by (unfold k; split; [generalize (Zceil_lb x); lra | apply Zceil_ub]).
  assert (Hx0 : 0 <= x) by (unfold x, Rdiv; apply Rmult_le_pos; [apply IZR_le; lia | apply Rlt_le, Rinv_0_lt_compat; lra]).
  assert (Hxa : x <= IZR a).
  { unfold x, Rdiv. apply Rle_trans with (IZR a * 1); [|lra]. apply Rmult_le_compat_l; [apply IZR_le; lia|].
    rewrite <- Rinv_1. apply Rinv_le_contravar; lra. }
  assert (Hk0 : (0 <= k <= a)%Z).
  { split; [unfold k; apply le_IZR; generalize (Zceil_ub x); change (IZR 0) with 0; lra | unfold k; apply Zceil_glb; exact Hxa]. }
  (* x >= k - 1 + 1/b: a > b (k-1) as integers *)
  assert (Hgap : IZR k - 1 + / IZR b <= x).
  { assert (Hlt : (b * (k - 1) < a)%Z).
    { apply lt_IZR. rewrite mult_IZR, minus_IZR. change (IZR 1) with 1.
      assert (x * IZR b = IZR a) by (unfold x; field; lra). nra. }
    assert (Hle : IZR b * (IZR k - 1) + 1 <= IZR a).
    { replace (IZR b * (IZR k - 1) + 1) with (IZR (b * (k - 1) + 1)) by (rewrite plus_IZR, mult_IZR, minus_IZR; reflexivity). apply IZR_le. lia. }
    unfold x. apply Rmult_le_reg_r with (IZR b); [lra|]. unfold Rdiv. rewrite Rmult_assoc, Rinv_l, Rmult_1_r by lra.
    rewrite Rmult_plus_distr_r, Rinv_l by lra. lra. }
  apply Zceil_imp. fold k. split.
  - rewrite minus_IZR. change (IZR 1) with 1. lra.
  - replace (IZR k) with (rnd32 (IZR k)).
    + apply round_le; auto with typeclass_instances. lra.
    + apply round_generic; auto with typeclass_instances. apply int_format. lia.
Qed.

Lemma quot_floor (a b : Z) : (0 <= a < 2 ^ 24)%Z -> (1 <= b < 2 ^ 24)%Z ->
  Zfloor (rnd32 (IZR a / IZR b)) = (a / b)%Z.
Proof.
  intros Ha Hb. pose proof (quot_error a b Ha Hb) as He. apply Rabs_def2 in He.
  assert (Hb1 : 1 <= IZR b) by (apply IZR_le; lia).
  set (x := IZR a / IZR b) in *. set (k := (a / b)%Z).
  pose proof (Z.div_mod a b ltac:(lia)) as Hd. pose proof (Z.mod_pos_bound a b ltac:(lia)) as Hm. fold k in Hd.
  assert (Hk0 : (0 <= k <= a)%Z) by (unfold k; split; [apply Z.div_pos; lia | apply Z.div_le_upper_bound; nia]).
  assert (Hxa : x * IZR b = IZR a) by (unfold x; field; lra).
  assert (Hlo : IZR k <= x).
  { apply Rmult_le_reg_r with (IZR b); [lra|]. rewrite Hxa, <- mult_IZR. apply IZR_le. nia. }
  assert (Hhi : x <= IZR k + 1 - / IZR b).
  { apply Rmult_le_reg_r with (IZR b); [lra|]. rewrite Hxa.
    unfold Rminus. rewrite !Rmult_plus_distr_r, <- Ropp_mult_distr_l, Rinv_l by lra.
    rewrite <- mult_IZR. replace (IZR (k * b) + 1 * IZR b + - (1)) with (IZR (k * b + b - 1)) by (rewrite minus_IZR, plus_IZR; ring).
    apply IZR_le. nia. }
  apply Zfloor_imp. split.
  - replace (IZR k) with (rnd32 (IZR k)).
    + apply round_le; auto with typeclass_instances.
    + apply round_generic; auto with typeclass_instances. apply int_format. lia.
  - rewrite plus_IZR. change (IZR 1) with 1. lra.
Qed.

(** * The same in Flocq's binary32 *)
Lemma round_FIX0 (rnd : R -> Z) (x : R) : round radix2 (FIX_exp 0) rnd x = IZR (rnd x).
Proof.
  unfold round, scaled_mantissa, cexp, FIX_exp, F2R. simpl. rewrite Rmult_1_r, Rmult_1_r. reflexivity.
Qed.

Lemma b32_of_Z_exact (a : Z) : (Z.abs a < 2 ^ 24)%Z ->
  B2R (b_of_Z 24 128 a) = IZR a /\ is_finite (b_of_Z 24 128 a) = true.
Proof.
  intros Ha. unfold b_of_Z.
  generalize (binary_normalize_correct 24 128 prec24_gt0 prec24_lt mode_NE a 0 false). cbv zeta.
  replace (F2R (Float radix2 a 0)) with (IZR a) by (unfold F2R; simpl; ring).
  change (round_mode mode_NE) with (Znearest (fun x => negb (Z.even x))).
  rewrite (round_generic radix2 fexp32 _ (IZR a) (int_format a Ha)).
  rewrite Rlt_bool_true.
  - intros (H1 & H2 & _). split; assumption.
  - rewrite <- abs_IZR. apply Rlt_trans with (IZR (2 ^ 24)); [apply IZR_lt; exact Ha|].
    change (IZR (2 ^ 24)) with (bpow radix2 24). apply bpow_lt. lia.
Qed.

Lemma b32_quot (a b : Z) : (0 <= a < 2 ^ 24)%Z -> (1 <= b < 2 ^ 24)%Z ->
  let q := Bdiv mode_NE (b_of_Z 24 128 a) (b_of_Z 24 128 b) in
  B2R q = rnd32 (IZR a / IZR b) /\ is_finite q = true.
Proof.
  intros Ha Hb. cbv zeta.
  destruct (b32_of_Z_exact a ltac:(lia)) as [Ra Fa]. destruct (b32_of_Z_exact b ltac:(lia)) as [Rb Fb].
  assert (Hb1 : 1 <= IZR b) by (apply IZR_le; lia).
  generalize (Bdiv_correct 24 128 prec24_gt0 prec24_lt mode_NE (b_of_Z 24 128 a) (b_of_Z 24 128 b)).
  rewrite Ra, Rb. intros H. specialize (H ltac:(lra)).
  change (round_mode mode_NE) with (Znearest (fun x => negb (Z.even x))) in H.
  rewrite Rlt_bool_true in H.
  - destruct H as (H1 & H2 & _). split; [exact H1 | rewrite H2; exact Fa].
  - assert (H0 : 0 <= IZR a / IZR b) by (unfold Rdiv; apply Rmult_le_pos; [apply IZR_le; lia | apply Rlt_le, Rinv_0_lt_compat; lra]).
    assert (Hxa : IZR a / IZR b <= IZR a).
    { unfold Rdiv. apply Rle_trans with (IZR a * 1); [|lra]. apply Rmult_le_compat_l; [apply IZR_le; lia|].
      rewrite <- Rinv_1. apply Rinv_le_contravar; lra. }
    assert (R0 : 0 <= rnd32 (IZR a / IZR b)).
    { rewrite <- (round_0 radix2 fexp32 (Znearest (fun x => negb (Z.even x)))). apply round_le; auto with typeclass_instances. }

    assert (R1 : rnd32 (IZR a / IZR b) <= IZR a).
    { apply Rle_trans with (rnd32 (IZR a)); [apply round_le; auto with typeclass_instances; exact Hxa|].
      right. apply round_generic; auto with typeclass_instances. apply int_format. lia. }
    rewrite Rabs_pos_eq by exact R0. apply Rle_lt_trans with (IZR a); [exact R1|].
    apply Rlt_trans with (IZR (2 ^ 24)); [apply IZR_lt; lia|]. change (IZR (2 ^ 24)) with (bpow radix2 24). apply bpow_lt. lia.
Qed.

Lemma b32_to_usize_int (x : f32) (k : Z) : is_finite x = true -> B2R x = IZR k -> (0 <= k <= usize_max)%Z ->
  b_to_int 24 128 0 usize_max x = k.
Proof.
  intros Hf Hr Hk.
  assert (Ht : Btrunc x = k).
  { apply eq_IZR. rewrite (Btrunc_correct 24 128 prec24_lt x), Hr, round_FIX0. rewrite Ztrunc_IZR. reflexivity. }
  unfold b_to_int. destruct x as [s|s| |s m e He]; try discriminate Hf; cbv zeta; rewrite Ht;
    (destruct (Z.ltb_spec k 0); [lia|]; destruct (Z.ltb_spec usize_max k); [lia|reflexivity]).
Qed.

Theorem ceil32_quot_B (a b : Z) : (0 <= a < 2 ^ 24)%Z -> (1 <= b < 2 ^ 24)%Z ->
  @c32_to_usize CB (@ceil32 CB (@div32 CB (@c32_of_Z CB a) (@c32_of_Z CB b))) = Zceil (IZR a / IZR b).
Proof.
  intros Ha Hb. cbn [c32_to_usize ceil32 div32 c32_of_Z CB].
  destruct (b32_quot a b Ha Hb) as [Rq Fq].
  destruct (Bnearbyint_correct 24 128 prec24_lt mode_UP (Bdiv mode_NE (b_of_Z 24 128 a) (b_of_Z 24 128 b))) as (Rc & Fc & _).
  apply b32_to_usize_int.
  - rewrite Fc. exact Fq.
  - rewrite Rc, round_FIX0. cbn [round_mode]. rewrite Rq, (quot_ceil a b Ha Hb). reflexivity.
  - assert (Hb1 : 1 <= IZR b) by (apply IZR_le; lia).
    assert (H0 : (0 <= Zceil (IZR a / IZR b))%Z).
    { apply le_IZR. apply Rle_trans with (IZR a / IZR b); [|apply Zceil_ub].
      unfold Rdiv; apply Rmult_le_pos; [apply IZR_le; lia | apply Rlt_le, Rinv_0_lt_compat; lra]. }
    assert (H1 : (Zceil (IZR a / IZR b) <= a)%Z).
    { apply Zceil_glb. unfold Rdiv. apply Rle_trans with (IZR a * 1); [|lra]. apply Rmult_le_compat_l; [apply IZR_le; lia|].
      rewrite <- Rinv_1. apply Rinv_le_contravar; lra. }
    unfold usize_max. lia.
Qed.

Theorem floor32_quot_B (a b : Z) : (0 <= a < 2 ^ 24)%Z -> (1 <= b < 2 ^ 24)%Z ->
  @c32_to_usize CB (@floor32 CB (@div32 CB (@c32_of_Z CB a) (@c32_of_Z CB b))) = (a / b)%Z.
Proof.
  intros Ha Hb. cbn [c32_to_usize floor32 div32 c32_of_Z CB].
  destruct (b32_quot a b Ha Hb) as [Rq Fq].
  destruct (Bnearbyint_correct 24 128 prec24_lt mode_DN (Bdiv mode_NE (b_of_Z 24 128 a) (b_of_Z 24 128 b))) as (Rc & Fc & _).
  apply b32_to_usize_int.
  - rewrite Fc. exact Fq.
  - rewrite Rc, round_FIX0. cbn [round_mode]. rewrite Rq, (quot_floor a b Ha Hb). reflexivity.
  - assert (0 <= a / b <= a)%Z by (split; [apply Z.div_pos; lia | apply Z.div_le_upper_bound; nia]).
    unfold usize_max. lia.
Qed.
