(** The control arithmetic of the synchronous resamplers in the bit-exact arithmetic (binary32 quotients) coincides with
    the ideal arithmetic (real quotients) for all sizes below 2^24 frames: the functions [xi_ctl_next], [xo_ctl_next]
    of CtlFftP -- which determine the new control record and the returned counts of every successful call, in every
    arithmetic -- and the getters take the same values in the two instances.  Consequently everything FftInR / FftOutR
    prove about counts and control state "with the f32 quotients read as real quotients" holds for the bit-exact model. *)

From Coq Require Import ZArith Reals Lra Lia.
From Flocq Require Import Core.
From Rubato.Model Require Import Num Reals Floats Base.
From Rubato.Gen Require Import SynchroGen.
From Rubato.Proofs Require Import CtlFftP F32Quot FftOutR.
Local Open Scope Z_scope.

Lemma ceil32_quot_R (a b : Z) : 0 <= a -> 1 <= b ->
  @c32_to_usize CR (@ceil32 CR (@div32 CR (@c32_of_Z CR a) (@c32_of_Z CR b))) = Zceil (IZR a / IZR b).
Proof.
  intros Ha Hb. cbn [c32_to_usize ceil32 div32 c32_of_Z CR]. rewrite Ztrunc_IZR. apply Z.max_r.
  apply le_IZR. apply Rle_trans with (IZR a / IZR b)%R; [|apply Zceil_ub].
  assert (1 <= IZR b)%R by (apply IZR_le; lia). assert (0 <= IZR a)%R by (apply IZR_le; lia).
  unfold Rdiv. apply Rmult_le_pos; [assumption | apply Rlt_le, Rinv_0_lt_compat; lra].
Qed.

Lemma floor32_quot_R (a b : Z) : 0 <= a -> 1 <= b ->
  @c32_to_usize CR (@floor32 CR (@div32 CR (@c32_of_Z CR a) (@c32_of_Z CR b))) = Zfloor (IZR a / IZR b).
Proof.
  intros Ha Hb. cbn [c32_to_usize floor32 div32 c32_of_Z CR]. rewrite Ztrunc_IZR. apply Z.max_r.
  apply Zfloor_lub. assert (1 <= IZR b)%R by (apply IZR_le; lia). assert (0 <= IZR a)%R by (apply IZR_le; lia).
  unfold Rdiv. apply Rmult_le_pos; [assumption | apply Rlt_le, Rinv_0_lt_compat; lra].
Qed.

Lemma floor_quot_Z (a b : Z) : 0 <= a -> 1 <= b -> Zfloor (IZR a / IZR b) = a / b.
Proof.
  intros Ha Hb. apply Zfloor_imp. assert (Hb1 : (1 <= IZR b)%R) by (apply IZR_le; lia).
  pose proof (Z.div_mod a b ltac:(lia)) as Hd. pose proof (Z.mod_pos_bound a b ltac:(lia)) as Hm.
  assert (Hx : (IZR a / IZR b * IZR b = IZR a)%R) by (field; lra).
  split.
  - apply Rmult_le_reg_r with (IZR b); [lra|]. rewrite Hx, <- mult_IZR. apply IZR_le. nia.
  - apply Rmult_lt_reg_r with (IZR b); [lra|]. rewrite Hx, <- mult_IZR. apply IZR_lt. nia.
Qed.

(** * FftFixedOut *)
Lemma xo_chunks_needed_B (st : FftFixedOut) fno :
  0 <= fno < 2 ^ 24 -> 1 <= FftFixedOut_fft_size_out st < 2 ^ 24 ->
  @xo_chunks_needed CB st fno = @xo_chunks_needed CR st fno.
Proof.
  intros Hn Hf. unfold xo_chunks_needed. rewrite ceil32_quot_B, ceil32_quot_R by lia. reflexivity.
Qed.

Theorem xo_ctl_next_B (st : FftFixedOut) :
  0 <= FftFixedOut_chunk_size_out st < 2 ^ 24 -> 1 <= FftFixedOut_fft_size_out st < 2 ^ 24 ->
  1 <= FftFixedOut_fft_size_in st -> 0 <= FftFixedOut_saved_frames st -> 0 <= FftFixedOut_frames_needed st ->
  @xo_ctl_next CB st = @xo_ctl_next CR st.
Proof.
  intros HC Hf Hfi Hs Hn. unfold xo_ctl_next. cbv zeta.
  set (st1 := if xo_enough st (xo_processed_frames st) then _ else _).
  assert (Hp : 0 <= xo_processed_frames st).
  { unfold xo_processed_frames. rewrite Z.quot_div_nonneg by lia.
    assert (0 <= FftFixedOut_frames_needed st / FftFixedOut_fft_size_in st) by (apply Z.div_pos; lia). nia. }
  assert (H1 : FftFixedOut_fft_size_out st1 = FftFixedOut_fft_size_out st /\ FftFixedOut_chunk_size_out st1 = FftFixedOut_chunk_size_out st /\
               0 <= FftFixedOut_saved_frames st1).
  { unfold st1, xo_enough, xo_saved_if_enough, xo_saved_else.
    destruct (Z.geb_spec (xo_processed_frames st) (FftFixedOut_chunk_size_out st)); destruct st; cbn in *; repeat split; lia. }
  destruct H1 as (E1 & E2 & E3).
  assert (Hfno : 0 <= xo_frames_needed_out st1 < 2 ^ 24).
  { unfold xo_frames_needed_out. rewrite E2. destruct (Z.gtb_spec (FftFixedOut_chunk_size_out st) (FftFixedOut_saved_frames st1)); lia. }
  rewrite (xo_chunks_needed_B st1 _ Hfno) by (rewrite E1; exact Hf). reflexivity.
Qed.

(** the getter input_frames_max() and the reset / constructor quotient *)
Theorem xo_input_frames_max_B (st : FftFixedOut) :
  0 <= FftFixedOut_chunk_size_out st < 2 ^ 24 -> 1 <= FftFixedOut_fft_size_out st < 2 ^ 24 ->
  @xo_input_frames_max CB st = @xo_input_frames_max CR st /\ @xo_reset_chunks_needed CB st = @xo_reset_chunks_needed CR st.
Proof.
  intros HC Hf. unfold xo_input_frames_max, xo_reset_chunks_needed. rewrite ceil32_quot_B, ceil32_quot_R by lia. split; reflexivity.
Qed.

(** * FftFixedIn *)
Theorem xi_ctl_next_B (st : FftFixedIn) :
  0 <= FftFixedIn_saved_frames st + FftFixedIn_chunk_size_in st < 2 ^ 24 -> 1 <= FftFixedIn_fft_size_in st < 2 ^ 24 ->
  @xi_ctl_next CB st = @xi_ctl_next CR st /\ @xi_output_frames_next CB st = @xi_output_frames_next CR st /\
  @xi_nbr_chunks_ready CB st (xi_next_saved_frames st) = (FftFixedIn_saved_frames st + FftFixedIn_chunk_size_in st) / FftFixedIn_fft_size_in st.
Proof.
  intros Hs Hf.
  assert (E : @xi_nbr_chunks_ready CB st (xi_next_saved_frames st) = @xi_nbr_chunks_ready CR st (xi_next_saved_frames st) /\
              @xi_nbr_chunks_ready CB st (xi_next_saved_frames st) = (FftFixedIn_saved_frames st + FftFixedIn_chunk_size_in st) / FftFixedIn_fft_size_in st).
  { unfold xi_nbr_chunks_ready, xi_next_saved_frames. rewrite floor32_quot_B, floor32_quot_R, floor_quot_Z by lia. split; reflexivity. }
  destruct E as [E1 E2]. split; [|split; [|exact E2]].
  - unfold xi_ctl_next. cbv zeta. rewrite E1. reflexivity.
  - unfold xi_output_frames_next. rewrite floor32_quot_B, floor32_quot_R, floor_quot_Z by lia. reflexivity.
Qed.
