(** C05 for the polynomial resamplers, ideal arithmetic, constant ratio: the output stream is a
    function of the input stream and the ratio only.  Output frame j (counted over the whole
    stream, whatever the chunking) is the interpolation polynomial through the input samples
    around the instant -4 + (j+1)/ratio, evaluated there.                                   *)

From Coq Require Import ZArith Reals List Bool Lra Lia.
From Flocq Require Import Core.
From Rubato.Model Require Import Num Reals Base Validate Async Resamplers.
From Rubato.Gen Require Import FastGen.
From Rubato.Proofs Require Import ShapeP ValidateP EngineP StepperR MalformedP ChannelsP ContentP FastInR FastCtorR.
Import ListNotations.
Local Open Scope R_scope.

Notation getR := (@getz R 0).

Definition interp_of (d : degree) : R -> list R -> R :=
  match d with
  | Septic => @fast_interp_septic CR SR
  | Quintic => @fast_interp_quintic CR SR
  | Cubic => @fast_interp_cubic CR SR
  | Linear => @fast_interp_lin CR SR
  | NearestDeg => fun x _ => x
  end.

(** the specification: the value of the stream at the (real) input instant G *)
Definition fast_spec (d : degree) (X : Z -> R) (G : R) : R :=
  let f := Zfloor G in
  match d with
  | NearestDeg => X f
  | _ => interp_of d (G - IZR f) (map (fun j => X (f - reach_lo d + Z.of_nat j)%Z) (seq 0 (Z.to_nat (win_width d))))
  end.

Lemma Zfloor_add_IZR (N : Z) (x : R) : Zfloor (IZR N + x) = (N + Zfloor x)%Z.
Proof.
  apply Zfloor_imp. rewrite !plus_IZR. generalize (Zfloor_lb x) (Zfloor_ub x). change (IZR 1) with 1. split; lra.
Qed.

Lemma window_as_spec (b : list (@snum CR SR)) (X : Z -> R) (N lo : Z) (w : nat) :
  (0 <= lo)%Z -> (lo + Z.of_nat w <= zlen b)%Z ->
  (forall i, (0 <= i < zlen b)%Z -> getR b i = X (N - 16 + i)%Z) ->
  slice b lo (lo + Z.of_nat w) = map (fun j => X (N - 16 + lo + Z.of_nat j)%Z) (seq 0 w).
Proof.
  intros H1 H2 Hc. change (@snum CR SR) with R in *. rewrite (slice_as_map 0) by lia. replace (Z.to_nat (lo + Z.of_nat w - lo)) with w by lia.
  apply map_ext_in. intros j Hj. apply in_seq in Hj. rewrite Hc by lia. f_equal. lia.
Qed.

(** one read: the value is the specification at the global instant N + idx, when the buffer
    holds the input samples N-16 .. *)
Lemma fi_sample_value (st : FI) d (b : list (@snum CR SR)) (idx : R) (X : Z -> R) (N : Z) :
  (0 <= Zfloor idx - reach_lo d + 16)%Z ->
  (Zfloor idx - reach_lo d + 16 + win_width d <= zlen b)%Z ->
  (forall i, (0 <= i < zlen b)%Z -> getR b i = X (N - 16 + i)%Z) ->
  @fast_sample CR SR (fi_arm st d) b idx = Ok (fast_spec d X (IZR N + idx)).
Proof.
  intros H1 H2 Hc. unfold fast_sample, fast_spec. rewrite Zfloor_add_IZR.
  destruct d; cbn [fi_arm fa_nearest fa_idx_floor fa_start_idx fa_frac fa_lo fa_hi fa_interp reach_lo win_width interp_of] in *.
  1-4: unfold fi_septic_idx_floor, fi_septic_start_idx, fi_septic_win_lo, fi_septic_win_hi, fi_septic_frac,
         fi_quintic_idx_floor, fi_quintic_start_idx, fi_quintic_win_lo, fi_quintic_win_hi, fi_quintic_frac,
         fi_cubic_idx_floor, fi_cubic_start_idx, fi_cubic_win_lo, fi_cubic_win_hi, fi_cubic_frac,
         fi_linear_idx_floor, fi_linear_start_idx, fi_linear_win_lo, fi_linear_win_hi, fi_linear_frac, POLYNOMIAL_LEN_I;
       cbn [cfloor c_to_isize csub coerce CR SR]; rewrite Ztrunc_IZR_id; rewrite !isize_as_usize_nonneg by lia; unfold fast_read;
       match goal with |- context [in_range ?b ?l ?h] => assert (E : in_range b l h = true) by (apply in_range_iff; lia); rewrite E end;
       cbn [bind]; f_equal; f_equal; [rewrite plus_IZR; ring|].
  - replace (Zfloor idx - 3 + 2 * 8 + 8)%Z with ((Zfloor idx - 3 + 2 * 8) + Z.of_nat 8)%Z by lia.
    rewrite (window_as_spec b X N) by (try assumption; lia). apply map_ext. intros j. f_equal. lia.
  - replace (Zfloor idx - 2 + 2 * 8 + 6)%Z with ((Zfloor idx - 2 + 2 * 8) + Z.of_nat 6)%Z by lia.
    rewrite (window_as_spec b X N) by (try assumption; lia). apply map_ext. intros j. f_equal. lia.
  - replace (Zfloor idx - 1 + 2 * 8 + 4)%Z with ((Zfloor idx - 1 + 2 * 8) + Z.of_nat 4)%Z by lia.
    rewrite (window_as_spec b X N) by (try assumption; lia). apply map_ext. intros j. f_equal. lia.
  - replace (Zfloor idx + 2 * 8 + 2)%Z with ((Zfloor idx + 2 * 8) + Z.of_nat 2)%Z by lia.
    rewrite (window_as_spec b X N) by (try assumption; lia). apply map_ext. intros j. f_equal. lia.
  - unfold fi_nearest_start_idx, fi_nearest_point, POLYNOMIAL_LEN_I. cbn [cfloor c_to_isize CR]. rewrite Ztrunc_IZR_id.
    rewrite isize_as_usize_nonneg by lia. unfold fast_point.
    destruct (nth_opt_some b (Zfloor idx + 2 * 8)%Z) as (v & Ev); [lia|]. rewrite Ev. f_equal.
    unfold nth_opt in Ev. destruct ((0 <=? Zfloor idx + 2 * 8)%Z && (Zfloor idx + 2 * 8 <? zlen b)%Z); [|discriminate].
    generalize (getz_nth_error 0 b _ v Ev). rewrite Z2Nat.id by lia. intros <-. rewrite Hc by lia. f_equal. lia.
Qed.

(** * One call *)
Section Call.
Variable d : degree.
Notation A := (@fi_arch CR SR d).
Notation ST := (@astate CR SR FI).

(* channel c of the state holds the input samples N-C-16 .. N-1 of the signal X *)
Definition holds (s : ST) (c : nat) (X : Z -> R) (N : Z) : Prop :=
  exists b, nth_error (as_buf s) c = Some b /\
            forall i, (0 <= i < Cz s + 16)%Z -> getR b i = X (N - Cz s - 16 + i)%Z.

(* the chunk w is the next C samples of X *)
Definition feeds (w : list (@snum CR SR)) (X : Z -> R) (N C : Z) : Prop :=
  forall i, (0 <= i < C)%Z -> getR w i = X (N + i)%Z.

Lemma all_len_nth blen (bufs : list (list (@snum CR SR))) c b :
  all_len blen bufs -> nth_error bufs c = Some b -> zlen b = blen.
Proof. intros H Hc. unfold all_len in H. rewrite Forall_forall in H. apply H. eapply nth_error_In; eassumption. Qed.

Theorem fi_call_stream_R (s : ST) wi wo (c : nat) (X : Z -> R) (N : Z) w :
  fi_wf s -> a_precheck A s wi wo None = Ok tt ->
  holds s c X N -> nth_error wi c = Some w -> feeds w X N (Cz s) ->
  exists (s' : ST) (n : Z) outs o,
    pib A s wi wo None = Ok (s', (Cz s, n), outs) /\ fi_wf s' /\ (0 <= n)%Z /\
    li s' = li s + IZR n * / ratio s - IZR (Cz s) /\ Cz s' = Cz s /\ ratio s' = ratio s /\
    holds s' c X (N + Cz s) /\
    nth_error outs c = Some o /\ (n <= zlen o)%Z /\
    forall k, (0 <= k < n)%Z -> getR o k = fast_spec d X (IZR N + li s + IZR (k + 1) * / ratio s).
Proof.
  intros W Hpre (b & Hb & Hcont) Hw Hfeed.
  destruct (fi_call_const_R d s wi wo None W Hpre) as (s' & n & outs & E & W' & Hn & Hli & HC & Hnch & Hr).
  destruct (pib_inv A s wi wo s' _ outs E) as (bufs1 & bufs2 & ps & last & E1 & E2 & Epos & Eo & Es' & Ecnt).
  cbn [a_pre fi_arch a_fixed_in] in E1, E2, Epos, Eo, Es', Ecnt.
  destruct W as [WC Wn Wlb Wlm Wb Wr Wt Wli].
  unfold Cz, nchz, ratio, li in *.
  set (st := as_ctl s) in *.
  set (Cc := FastFixedIn_chunk_size st) in *.
  set (r := FastFixedIn_resample_ratio st) in *.
  assert (Hr0 : r <> 0) by lra.
  set (mask := map (fun _ : bool => true) (as_mask s)) in *.
  (* the count *)
  cbn [a_ret fi_arch] in Ecnt. unfold fi_ret_in, fi_ret_out in Ecnt. injection Ecnt as En.
  (* the argument check: shapes *)
  unfold a_precheck in Hpre. cbn [bind] in Hpre. fold st mask in Hpre.
  apply validate_ok_iff in Hpre. destruct Hpre as (Vi & Vm & Vil & Vo & Vol).
  cbn [a_val_channels a_val_min_in a_val_min_out fi_arch] in Vi, Vm, Vil, Vo, Vol.
  unfold fi_val_channels, fi_val_min_in, fi_val_min_out in Vi, Vm, Vil, Vo, Vol. fold Cc in Vil.
  assert (Hc : (c < length (as_buf s))%nat) by (apply nth_error_Some; congruence).
  assert (Hm : nth_error mask c = Some true).
  { unfold mask. rewrite all_true_map. apply nth_error_repeat_true. lia. }
  (* history shift *)
  cbn [a_shift_lo a_shift_hi a_shift_dst fi_arch] in E1. unfold fi_shift_lo, fi_shift_hi, fi_shift_dst, POLYNOMIAL_LEN_U in E1. fold Cc in E1.
  destruct (shift_all_nth _ _ _ _ _ c b E1 Hb) as (b1 & Hb1 & Ecw).
  assert (Lb : zlen b = (Cc + 16)%Z) by (eapply all_len_nth; eassumption).
  assert (Lb1 : zlen b1 = (Cc + 16)%Z) by (rewrite (copy_within_length _ _ _ _ _ Ecw); exact Lb).
  (* load *)
  destruct (fill_all_nth A st bufs1 wi mask bufs2 c b1 true E2 Hb1 Hm) as (b2 & Hb2 & (w' & Hw' & Ef)).
  rewrite Hw in Hw'. injection Hw' as <-.
  unfold fill_channel in Ef. cbn [a_fill_lo a_fill_hi a_fill_src_hi fi_arch] in Ef.
  unfold fi_fill_lo, fi_fill_hi, fi_fill_src_hi, POLYNOMIAL_LEN_U in Ef. fold Cc in Ef.
  destruct (in_range b1 (2 * 8) (2 * 8 + Cc)) eqn:R1; cbn [negb] in Ef; [|discriminate].
  destruct (in_range w 0 Cc) eqn:R2; cbn [negb] in Ef; [|discriminate].
  destruct (2 * 8 + Cc - 2 * 8 =? Cc)%Z; cbn [negb] in Ef; [|discriminate].
  injection Ef as Eb2. apply in_range_iff in R1, R2. change (@snum CR SR) with R in *.
  assert (Lsl : zlen (slice w 0 Cc) = Cc) by (rewrite slice_length by lia; lia).
  assert (Lb2 : zlen b2 = (Cc + 16)%Z) by (rewrite <- Eb2, splice_length by lia; exact Lb1).
  assert (Cont2 : forall i, (0 <= i < zlen b2)%Z -> getR b2 i = X (N - 16 + i)%Z).
  { intros i Hi. rewrite Lb2 in Hi. rewrite <- Eb2. change (@snum CR SR) with R in *.
    rewrite getz_splice by lia. rewrite Lsl.
    destruct ((16 <=? i)%Z && (i <? 16 + Cc)%Z) eqn:Ei.
    - apply andb_true_iff in Ei. destruct Ei as [Ea Eb]. apply Z.leb_le in Ea. apply Z.ltb_lt in Eb.
      rewrite getz_slice by lia. rewrite Hfeed by lia. f_equal. lia.
    - assert (Hi16 : (i < 16)%Z).
      { apply andb_false_iff in Ei. destruct Ei as [Ea|Eb]; [apply Z.leb_gt in Ea; lia | apply Z.ltb_ge in Eb; lia]. }
      rewrite (getz_copy_within 0 b b1 Cc (Cc + 2 * 8) 0 i Ecw).
      destruct ((0 <=? i)%Z && (i <? 0 + (Cc + 2 * 8 - Cc))%Z) eqn:Ej.
      + rewrite Hcont by lia. f_equal. lia.
      + apply andb_false_iff in Ej. destruct Ej as [Ea|Eb]; [apply Z.leb_gt in Ea; lia | apply Z.ltb_ge in Eb; lia]. }
  (* the stepping loop *)
  destruct Epos as (fuel & Epos).
  cbn [a_t0 a_tend a_inc a_idx0 a_end_idx fi_arch] in Epos.
  rewrite fi_t_ratio_R in Epos by exact Hr0. rewrite fi_t_ratio_end_R in Epos by (rewrite Wt; exact Hr0).
  rewrite Wt in Epos. fold r in Epos.
  set (t := / r) in *.
  assert (Ht : 0 < t) by (apply Rinv_0_lt_compat; exact Wr).
  assert (Hinc : @fi_t_ratio_increment CR st (@fi_approximate_nbr_frames CR st) t t = 0).
  { unfold fi_t_ratio_increment. cbv [cdiv csub CR cnum]. unfold Rdiv. rewrite Rminus_diag_eq by reflexivity. ring. }
  rewrite Hinc in Epos. rewrite fi_end_idx_R in Epos. fold Cc in Epos.
  unfold fi_idx0 in Epos. fold st in Epos.
  set (l0 := FastFixedIn_last_index st) in *.
  set (Ee := (Cc - (8 + 1) - Zceil t)%Z) in *.
  assert (Hloop : forall fuel t0 inc0 i0,
            @positions_in CR (a_tstep A st) (a_istep A st) (a_cond A st Ee) fuel t0 inc0 i0 =
            @positions_in CR Rplus Rplus (fun i => Rlt_bool i (IZR Ee)) fuel t0 inc0 i0)
    by (intros; destruct d; reflexivity).
  rewrite Hloop in Epos.
  destruct (positions_in_spec (IZR Ee) fuel t 0 l0 ps last Epos) as (Hps & _ & Hlt & _ & _).
  assert (Hpos : forall k, pos_at l0 t 0 k = l0 + INR k * t) by (intros k; unfold pos_at; lra).
  assert (Hceil : IZR (Zceil t) - t < 1 /\ t <= IZR (Zceil t)).
  { split; [generalize (Zceil_lb t); lra | apply Zceil_ub]. }
  (* outputs of channel c *)
  assert (Ho0 : exists o0, nth_error wo c = Some o0).
  { destruct (nth_error wo c) as [o0|] eqn:Eo0; [eauto|]. apply nth_error_None in Eo0.
    unfold zlen in Vo. rewrite map_length in Vo. lia. }
  destruct Ho0 as (o0 & Ho0).
  destruct (outputs_all_nth A st bufs2 wo mask ps outs c b2 o0 true Eo Hb2 Ho0 Hm) as (o & Ho & (vals & Evals & Eow)).
  cbn [a_sample fi_arch] in Evals.
  destruct (samples_at_nth _ _ _ Evals) as (Lv & Nv).
  exists s', n, outs, o.
  split; [exact E|]. split; [exact W'|]. split; [lia|]. split; [exact Hli|]. split; [exact HC|]. split; [exact Hr|].
  split.
  { (* the buffer now holds the samples up to N + C *)
    exists b2. unfold Cz. rewrite HC. split; [rewrite Es'; exact Hb2|].
    intros i Hi. rewrite Cont2 by lia. f_equal. lia. }
  split; [exact Ho|].
  split. { rewrite Eow. unfold write_prefix, zlen. rewrite app_length. change (@cnum CR) with R in *. lia. }
  intros k Hk. change (@cnum CR) with R in *.
  assert (Hkn : (Z.to_nat k < length ps)%nat) by lia.
  destruct (nth_error ps (Z.to_nat k)) as [p|] eqn:Ep; [|apply nth_error_None in Ep; lia].
  destruct (Nv _ _ Ep) as (v & Ev & Hv).
  assert (Epk : p = l0 + IZR (k + 1) * t).
  { rewrite Hps in Ep. rewrite nth_error_map in Ep. rewrite nth_error_nth' with (d := O) in Ep by (rewrite seq_length; exact Hkn).
    cbn [option_map] in Ep. injection Ep as <-. rewrite seq_nth by exact Hkn. rewrite Hpos.
    rewrite INR_IZR_INZ. f_equal. f_equal. f_equal. lia. }
  (* the instant lies in the window of the buffer *)
  assert (F : (-10 <= Zfloor p < Cc - 9)%Z).
  { rewrite Epk. apply Zfloor_bounds.
    - destruct Wli as [Wl _]. fold t in Wl. change (IZR (-10)) with (-10).
      assert (1 <= IZR (k + 1)) by (apply IZR_le; lia). nra.
    - specialize (Hlt (Z.to_nat k) Hkn). rewrite Hpos in Hlt. rewrite INR_IZR_INZ, Z2Nat.id in Hlt by lia.
      unfold Ee in Hlt. rewrite !minus_IZR in Hlt. change (IZR (8 + 1)) with 9 in Hlt. rewrite minus_IZR, plus_IZR. change (IZR 9) with 9. change (IZR 1) with 1. lra. }
  rewrite (fi_sample_value st d b2 p X N) in Ev; [| | |exact Cont2]; try (change (@snum CR SR) with R; rewrite ?Lb2; destruct d; cbn [reach_lo win_width]; lia).
  injection Ev as <-.
  rewrite Eow. unfold write_prefix. change (@snum CR SR) with R in *.
  rewrite getz_app_l by (unfold zlen; lia).
  rewrite <- (Z2Nat.id k) at 1 by lia. rewrite (getz_nth_error 0 vals _ _ Hv).
  rewrite Epk. f_equal. fold l0. lra.
Qed.

End Call.

(** * Whole streams *)
Section History.
Variable d : degree.
Variable c : nat.
Notation A := (@fi_arch CR SR d).
Notation ST := (@astate CR SR FI).

(* run a list of calls (no mask); collect the frames written for channel c *)
Fixpoint fi_stream (s : ST) (calls : list (list (list R) * list (list R))) : res (ST * Z * list R) :=
  match calls with
  | [] => Ok (s, 0%Z, [])
  | (wi, wo) :: rest =>
      do _ <- a_precheck A s wi wo None;
      do x <- pib A s wi wo None;
      let '(s', (a, b), outs) := x in
      do y <- fi_stream s' rest;
      let '(s'', nin, ys) := y in
      Ok (s'', (a + nin)%Z, firstn (Z.to_nat b) (nth c outs []) ++ ys)
  end.

(* the calls feed consecutive segments of the signal X, starting at sample N *)
Fixpoint fed (X : Z -> R) (N C : Z) (calls : list (list (list R) * list (list R))) : Prop :=
  match calls with
  | [] => True
  | (wi, _) :: rest => (exists w, nth_error wi c = Some w /\ feeds w X N C) /\ fed X (N + C) C rest
  end.

Theorem fi_stream_R (X : Z -> R) : forall calls (s : ST) (N : Z),
  fi_wf s -> holds s c X N -> fed X N (Cz s) calls ->
  match fi_stream s calls with
  | Ok (s', nin, ys) =>
      fi_wf s' /\ holds s' c X (N + nin) /\ Cz s' = Cz s /\ ratio s' = ratio s /\
      li s' = li s + IZR (zlen ys) * / ratio s - IZR nin /\
      forall j, (0 <= j < zlen ys)%Z -> getR ys j = fast_spec d X (IZR N + li s + IZR (j + 1) * / ratio s)
  | Err _ => True                       (* a malformed call: rejected (C13) *)
  | Panic _ | UB _ | Diverge => False
  end.
Proof.
  induction calls as [|[wi wo] rest IH]; intros s N W Hh Hfed; cbn [fi_stream].
  - split; [exact W|]. split; [rewrite Z.add_0_r; exact Hh|]. split; [reflexivity|]. split; [reflexivity|].
    split; [unfold zlen; cbn; lra|]. intros j Hj. unfold zlen in Hj. cbn in Hj. lia.
  - destruct Hfed as [(w & Hw & Hfeed) Hrest].
    destruct (a_precheck A s wi wo None) as [[]| | | |] eqn:Ep; cbn [bind]; try exact I;
      try (destruct (a_precheck_total A s wi wo None) as [H|[e H]]; rewrite H in Ep; discriminate).
    destruct (fi_call_stream_R d s wi wo c X N w W Ep Hh Hw Hfeed)
      as (s' & n & outs & o & E & W' & Hn & Hli & HC & Hr & Hh' & Ho & Hlen & Hval).
    rewrite E. cbn [bind]. assert (Hrest' : fed X (N + Cz s) (Cz s') rest) by (rewrite HC; exact Hrest).
    specialize (IH s' (N + Cz s)%Z W' Hh' Hrest').
    destruct (fi_stream s' rest) as [[[s'' nin] ys]| | | |]; cbn [bind]; try exact IH.
    destruct IH as (W'' & Hh'' & HC'' & Hr'' & Hli'' & Hval'').
    rewrite (nth_error_nth _ _ [] Ho). change (@snum CR SR) with R in *.
    assert (Lf : zlen (firstn (Z.to_nat n) o) = n) by (unfold zlen in *; rewrite firstn_length; lia).
    assert (Lys : zlen (firstn (Z.to_nat n) o ++ ys) = (n + zlen ys)%Z) by (unfold zlen in *; rewrite app_length; lia).
    split; [exact W''|]. split; [rewrite Z.add_assoc; exact Hh''|]. split; [congruence|]. split; [congruence|].
    split.
    + rewrite Lys, plus_IZR. rewrite Hli'', Hli, Hr, plus_IZR. lra.
    + intros j Hj. rewrite Lys in Hj. destruct (Z.lt_ge_cases j n) as [Hjn|Hjn].
      * rewrite getz_app_l by lia. rewrite getz_firstn by lia. apply Hval. lia.
      * rewrite getz_app_r by lia. rewrite Lf. rewrite Hval'' by lia. f_equal.
        rewrite Hli, Hr. replace (j - n + 1)%Z with ((j + 1) - n)%Z by lia. rewrite minus_IZR, !plus_IZR. lra.
Qed.

End History.

(** * From the constructor: the stream of a fresh resampler *)
Lemma getz_repeat_zero n i : getR (repeat 0 n) i = 0.
Proof.
  unfold getz. destruct (i <? 0)%Z; [reflexivity|]. generalize (Z.to_nat i). induction n as [|n IH]; intros [|k]; cbn; auto.
Qed.

Theorem fi_fresh_stream_R ratio0 maxrel d chunk nch s (c : nat) (X : Z -> R) calls :
  (1 <= chunk)%Z -> (0 <= nch)%Z -> (c < Z.to_nat nch)%nat ->
  @fast_in_new CR SR ratio0 maxrel d chunk nch = inr (RFastIn d s) ->
  (forall n, (n < 0)%Z -> X n = 0) ->
  fed c X 0 chunk calls ->
  match fi_stream d c s calls with
  | Ok (_, _, ys) => forall j, (0 <= j < zlen ys)%Z -> getR ys j = fast_spec d X (-4 + IZR (j + 1) * / ratio0)
  | Err _ => True
  | Panic _ | UB _ | Diverge => False
  end.
Proof.
  intros Hc Hn Hcn Hnew HX Hfed.
  destruct (fi_ctor_wf_R ratio0 maxrel d chunk nch s Hc Hn Hnew) as [W Hr].
  unfold fast_in_new in Hnew.
  destruct (validate_ratios_fast ratio0 maxrel); [discriminate|]. injection Hnew as Es.
  assert (HC : Cz s = chunk) by (rewrite <- Es; reflexivity).
  assert (Hl : li s = -4).
  { rewrite <- Es. unfold li. cbn [as_ctl]. cbv [set_FastFixedIn_max_relative_ratio set_FastFixedIn_target_ratio
       set_FastFixedIn_resample_ratio_original set_FastFixedIn_resample_ratio set_FastFixedIn_last_index FastFixedIn_last_index].
    unfold fi_new_last_index, POLYNOMIAL_LEN_I. cbv [c_of_Z CR cnum]. change (IZR (- (8 ÷ 2))) with (-4). reflexivity. }
  assert (Hh : holds s c X 0).
  { rewrite <- Es. unfold holds. cbn [as_buf]. unfold chans.
    exists (@zeros CR SR (fi_new_buffer_len chunk)). split.
    - rewrite nth_error_repeat by exact Hcn. reflexivity.
    - intros i Hi. unfold zeros. cbn [szero SR]. rewrite getz_repeat_zero. symmetry. apply HX.
      unfold Cz in *. cbn [as_ctl] in *. lia. }
  rewrite <- HC in Hfed.
  generalize (fi_stream_R d c X calls s 0%Z W Hh Hfed).
  destruct (fi_stream d c s calls) as [[[s' nin] ys]| | | |]; try exact (fun x => x).
  intros (_ & _ & _ & _ & _ & Hval) j Hj. rewrite (Hval j Hj). f_equal. rewrite Hl, <- Hr. change (IZR 0) with 0. lra.
Qed.

(** chunk-size independence: two polynomial resamplers with the same ratio and degree, any two
    chunk sizes and channel counts, fed the same signal: the streams agree on their common prefix *)
Corollary fi_chunk_independent_R ratio0 maxrel1 maxrel2 d chunk1 chunk2 nch1 nch2 s1 s2 c1 c2 (X : Z -> R) calls1 calls2 :
  (1 <= chunk1)%Z -> (1 <= chunk2)%Z -> (0 <= nch1)%Z -> (0 <= nch2)%Z -> (c1 < Z.to_nat nch1)%nat -> (c2 < Z.to_nat nch2)%nat ->
  @fast_in_new CR SR ratio0 maxrel1 d chunk1 nch1 = inr (RFastIn d s1) ->
  @fast_in_new CR SR ratio0 maxrel2 d chunk2 nch2 = inr (RFastIn d s2) ->
  (forall n, (n < 0)%Z -> X n = 0) ->
  fed c1 X 0 chunk1 calls1 -> fed c2 X 0 chunk2 calls2 ->
  forall r1 r2 ys1 ys2, fi_stream d c1 s1 calls1 = Ok (r1, ys1) -> fi_stream d c2 s2 calls2 = Ok (r2, ys2) ->
  forall j, (0 <= j < zlen ys1)%Z -> (j < zlen ys2)%Z -> getR ys1 j = getR ys2 j.
Proof.
  intros H1 H2 H3 H4 H5 H6 N1 N2 HX F1 F2 r1 r2 ys1 ys2 E1 E2 j Hj1 Hj2.
  generalize (fi_fresh_stream_R ratio0 maxrel1 d chunk1 nch1 s1 c1 X calls1 H1 H3 H5 N1 HX F1). rewrite E1. destruct r1 as [? ?]. intros V1.
  generalize (fi_fresh_stream_R ratio0 maxrel2 d chunk2 nch2 s2 c2 X calls2 H2 H4 H6 N2 HX F2). rewrite E2. destruct r2 as [? ?]. intros V2.
  rewrite V1, V2 by lia. reflexivity.
Qed.
