(** C15: no overflow.  When every product |w_i s_i| of the operand values is at most P and the
    a-priori magnitude bound  (1+u)^(2n+7) * 8nP + (16n+7)(1+u)^(2n+7) eta  is below 2^emax, every
    bit-exact kernel result is finite -- so the error bounds of KernelSim32 hold without a
    finiteness hypothesis (audio samples and filter coefficients are far inside this range).       *)

From Coq Require Import ZArith Reals List Bool Lra Lia.
From Flocq Require Import Core BinarySingleNaN.
From Rubato.Model Require Import Num Floats Reals Base Kernels.
From Rubato.Proofs Require Import KernelsR KernelErr KernelSim32.
Import ListNotations.
Local Open Scope R_scope.

Notation PREC := 24%Z (only parsing).
Notation EMAX := 128%Z (only parsing).
Notation bfl := (binary_float PREC EMAX).
Notation SB := S32 (only parsing).
Notation fexpB := (SpecFloat.fexp PREC EMAX).
Notation rnB := (round radix2 fexpB ZnearestE).
Notation uu := (/ 2 * bpow radix2 (- PREC + 1)).
Notation ee := (/ 2 * bpow radix2 (3 - EMAX - PREC)).
Notation addR := (fun a b : R => rnB (a + b)).
Notation mulR := (fun a b : R => rnB (a * b)).
Notation fmaR := (fun a b c : R => rnB (a * b + c)).
Notation top := (bpow radix2 EMAX).

Lemma Hu : 0 <= uu. Proof. apply (uu_pos PREC). Qed.
Lemma He : 0 <= ee. Proof. apply (ee_pos (3 - EMAX - PREC)). Qed.
Lemma rnE x : Rabs (rnB x - x) <= uu * Rabs x + ee.
Proof. apply (rn_err (3 - EMAX - PREC) PREC ltac:(lia) x). Qed.
Lemma HaddR : forall a b, Rabs (addR a b - (a + b)) <= uu * Rabs (a + b) + ee. Proof. intros; apply rnE. Qed.
Lemma HmulR : forall a b, Rabs (mulR a b - a * b) <= uu * Rabs (a * b) + ee. Proof. intros; apply rnE. Qed.
Lemma HfmaR : forall a b c, Rabs (fmaR a b c - (a * b + c)) <= uu * Rabs (a * b + c) + ee. Proof. intros; apply rnE. Qed.

Notation apx := (approx uu ee).
Notation Gk := (G uu).
Definition bnd (k m : nat) (A : R) : R := Gk k * A + INR m * Gk k * ee.

Lemma bnd_mono k m A k' m' A' : (k <= k')%nat -> (m <= m')%nat -> 0 <= A <= A' -> bnd k m A <= bnd k' m' A'.
Proof.
  intros Hk Hm HA. unfold bnd.
  assert (Hg := G_mono uu Hu k k' Hk). assert (H1 := G_ge1 uu Hu k).
  assert (Hmm : INR m <= INR m') by (apply le_INR; exact Hm). assert (Hm0 : 0 <= INR m) by apply pos_INR.
  assert (He' := He).
  apply Rplus_le_compat.
  - apply Rmult_le_compat; lra.
  - apply Rmult_le_compat_r; [lra|]. apply Rmult_le_compat; lra.
Qed.

Lemma apx_mag k m r T A : apx k m r T A -> Rabs r <= bnd k m A.
Proof.
  intros [H1 H2]. unfold bnd.
  assert (Rabs r <= Rabs T + Rabs (r - T)) by (replace r with (T + (r - T)) at 1 by ring; apply Rabs_triang).
  lra.
Qed.

(** finite operands and a rounded result below 2^emax: the operation is finite and is the rounded real one *)
Lemma fin_add (a b : bfl) : is_finite a = true -> is_finite b = true -> Rabs (rnB (B2R a + B2R b)) < top ->
  is_finite (Bplus mode_NE a b) = true /\ B2R (Bplus mode_NE a b) = rnB (B2R a + B2R b).
Proof.
  intros Fa Fb H. generalize (Bplus_correct PREC EMAX _ _ mode_NE a b Fa Fb). cbn [round_mode].
  rewrite Rlt_bool_true by exact H. intros (E & F & _). split; assumption.
Qed.
Lemma fin_mul (a b : bfl) : is_finite a = true -> is_finite b = true -> Rabs (rnB (B2R a * B2R b)) < top ->
  is_finite (Bmult mode_NE a b) = true /\ B2R (Bmult mode_NE a b) = rnB (B2R a * B2R b).
Proof.
  intros Fa Fb H. generalize (Bmult_correct PREC EMAX _ _ mode_NE a b). cbn [round_mode].
  rewrite Rlt_bool_true by exact H. intros (E & F & _). rewrite Fa, Fb in F. split; assumption.
Qed.
Lemma fin_fma (a b c : bfl) : is_finite a = true -> is_finite b = true -> is_finite c = true ->
  Rabs (rnB (B2R a * B2R b + B2R c)) < top ->
  is_finite (Bfma mode_NE a b c) = true /\ B2R (Bfma mode_NE a b c) = rnB (B2R a * B2R b + B2R c).
Proof.
  intros Fa Fb Fc H. generalize (Bfma_correct PREC EMAX _ _ mode_NE a b c Fa Fb Fc). cbv zeta. cbn [round_mode].
  rewrite Rlt_bool_true by exact H. intros (E & F & _). split; assumption.
Qed.

(** the invariant of one accumulator: finite, its value r, and r approximates T within the model *)
Definition J (k m : nat) (x : bfl) (r T A : R) : Prop := is_finite x = true /\ B2R x = r /\ apx k m r T A.

Lemma J_mono k m k' m' x r T A : (k <= k')%nat -> (m <= m')%nat -> J k m x r T A -> J k' m' x r T A.
Proof. intros Hk Hm (F & E & H). repeat split; try assumption; apply (approx_mono uu ee Hu He k m k' m' r T A Hk Hm H). Qed.

Lemma J_mac fused k m (acc : bfl) racc T A (w s : bfl) :
  J k m acc racc T A -> is_finite w = true -> is_finite s = true ->
  bnd (S (S k)) (S (S m)) (A + Rabs (B2R w * B2R s)) < top ->
  J (S (S k)) (S (S m)) (@mac CB SB fused acc w s) (@mac CR SEB fused racc (B2R w) (B2R s))
    (T + B2R w * B2R s) (A + Rabs (B2R w * B2R s)).
Proof.
  intros (Fa & Ea & Ha) Fw Fs Hb.
  assert (Hap := mac_err uu ee addR mulR fmaR Hu He HaddR HmulR HfmaR fused k m racc T A (B2R w) (B2R s) Ha).
  change (@mac CR (SE addR mulR fmaR) fused racc (B2R w) (B2R s)) with (@mac CR SEB fused racc (B2R w) (B2R s)) in Hap.
  assert (Hmag := apx_mag _ _ _ _ _ Hap).
  assert (HA : 0 <= A) by (destruct Ha as [H _]; eapply Rle_trans; [apply Rabs_pos|exact H]).
  set (p := Rabs (B2R w * B2R s)) in *. assert (Hp : 0 <= p) by apply Rabs_pos.
  unfold mac in *. destruct fused; cbn [sfma sadd smul S32 SEB SE] in *; cbv beta in *.
  - (* fused *)
    destruct (fin_fma w s acc Fw Fs Fa) as [F E]; [rewrite Ea; eapply Rle_lt_trans; [exact Hmag|exact Hb]|].
    split; [exact F|]. split; [rewrite E, Ea; reflexivity|exact Hap].
  - (* product, then sum *)
    assert (Hprod : Rabs (rnB (B2R w * B2R s)) < top).
    { assert (H1 := rnE (B2R w * B2R s)). fold p in H1.
      assert (H2 : Rabs (rnB (B2R w * B2R s)) <= p + Rabs (rnB (B2R w * B2R s) - B2R w * B2R s)).
      { replace (rnB (B2R w * B2R s)) with (B2R w * B2R s + (rnB (B2R w * B2R s) - B2R w * B2R s)) at 1 by ring.
        eapply Rle_trans; [apply Rabs_triang|]. fold p. lra. }
      (* (1+u) p + eta <= bnd (k+2) (m+2) (A + p) *)
      assert (Hg : 1 + uu <= Gk (S (S k))).
      { rewrite !G_S. assert (H0 := G_ge1 uu Hu k). assert (Hu' := Hu).
        assert (H1' : 1 <= (1 + uu) * Gk k) by (replace 1 with (1 * 1) at 1 by ring; apply Rmult_le_compat; lra).
        rewrite <- (Rmult_1_r (1 + uu)) at 1. apply Rmult_le_compat_l; lra. }
      assert (Hu'' := Hu).
      assert (Hb1 : (1 + uu) * p <= Gk (S (S k)) * (A + p)).
      { apply Rle_trans with (Gk (S (S k)) * p); [apply Rmult_le_compat_r; lra|]. apply Rmult_le_compat_l; lra. }
      assert (Hb2 : ee <= INR (S (S m)) * Gk (S (S k)) * ee).
      { rewrite <- (Rmult_1_l ee) at 1. apply Rmult_le_compat_r; [apply He|].
        assert (1 <= INR (S (S m))) by (rewrite !S_INR; assert (0 <= INR m) by apply pos_INR; lra).
        replace 1 with (1 * 1) by ring. apply Rmult_le_compat; lra. }
      unfold bnd in Hb. lra. }
    destruct (fin_mul w s Fw Fs Hprod) as [Fp Ep].
    destruct (fin_add acc (Bmult mode_NE w s) Fa Fp) as [F E]; [rewrite Ea, Ep; eapply Rle_lt_trans; [exact Hmag|exact Hb]|].
    split; [exact F|]. split; [rewrite E, Ea, Ep; reflexivity|exact Hap].
Qed.

Lemma J_add k m1 m2 (x y : bfl) rx ry T1 A1 T2 A2 :
  J k m1 x rx T1 A1 -> J k m2 y ry T2 A2 -> bnd (S k) (S (m1 + m2)) (A1 + A2) < top ->
  J (S k) (S (m1 + m2)) (Bplus mode_NE x y) (addR rx ry) (T1 + T2) (A1 + A2).
Proof.
  intros (Fx & Ex & Hx) (Fy & Ey & Hy) Hb.
  assert (Hap := sum_err uu ee addR Hu He HaddR k m1 m2 rx T1 A1 ry T2 A2 Hx Hy).
  assert (Hmag := apx_mag _ _ _ _ _ Hap).
  destruct (fin_add x y Fx Fy) as [F E]; [rewrite Ex, Ey; cbv beta in Hmag; eapply Rle_lt_trans; [exact Hmag|exact Hb]|].
  split; [exact F|]. split; [rewrite E, Ex, Ey; reflexivity|exact Hap].
Qed.

(** ** lanes: every lane finite, its abs-sum at most j*P after j blocks *)
Definition Jl (k m j : nat) (P : R) (acc : list bfl) (racc Tl Al : list R) : Prop :=
  length acc = length racc /\ length racc = length Tl /\ length Tl = length Al /\
  forall i, (i < length acc)%nat ->
    J k m (nth i acc (B754_zero false)) (nth i racc 0) (nth i Tl 0) (nth i Al 0) /\ 0 <= nth i Al 0 <= INR j * P.

Definition prodP (P : R) (x y : bfl) : Prop := is_finite x = true /\ is_finite y = true /\ Rabs (B2R x * B2R y) <= P.

Lemma Jl_mac_lanes fused k m j P : 0 <= P -> bnd (S (S k)) (S (S m)) (INR (S j) * P) < top ->
  forall (acc w s : list bfl) (racc Tl Al : list R),
  Jl k m j P acc racc Tl Al -> Forall2 (prodP P) w s -> length w = length acc ->
  Jl (S (S k)) (S (S m)) (S j) P (@mac_lanes CB SB fused acc w s) (@mac_lanes CR SEB fused racc (map B2R w) (map B2R s))
     (@mac_lanes CR SR fused Tl (map B2R w) (map B2R s)) (@mac_lanes CR SR fused Al (map Rabs (map B2R w)) (map Rabs (map B2R s))).
Proof.
  intros HP Hb. induction acc as [|a acc IH]; intros w s racc Tl Al (L1 & L2 & L3 & H) Hws Lw.
  - destruct racc; [|discriminate]. destruct Tl; [|discriminate]. destruct Al; [|discriminate].
    cbn. repeat (split; [reflexivity|]). intros i Hi. exfalso. inversion Hi.
  - destruct racc as [|ra racc]; [discriminate|]. destruct Tl as [|t Tl]; [discriminate|]. destruct Al as [|al Al]; [discriminate|].
    destruct Hws as [|x y w s Hxy Hws]; [discriminate|].
    cbn [mac_lanes map].
    assert (Hrest : Jl k m j P acc racc Tl Al).
    { split; [cbn in L1; lia|]. split; [cbn in L2; lia|]. split; [cbn in L3; lia|].
      intros i Hi. apply (H (S i)). cbn. lia. }
    destruct (IH w s racc Tl Al Hrest Hws ltac:(cbn in Lw; lia)) as (M1 & M2 & M3 & M4).
    split; [cbn [length]; lia|]. split; [cbn [length]; lia|]. split; [cbn [length]; lia|].
    intros i Hi. destruct i as [|i].
    + cbn [nth]. destruct (H 0%nat ltac:(cbn; lia)) as [HJ HA]. cbn [nth] in HJ, HA.
      destruct Hxy as (Fx & Fy & Hp).
      rewrite !mac_R. rewrite <- Rabs_mult.
      assert (Hle : al + Rabs (B2R x * B2R y) <= INR (S j) * P) by (rewrite S_INR; lra).
      split.
      * apply J_mac; try assumption.
        eapply Rle_lt_trans; [|exact Hb]. apply bnd_mono; try lia. split; [|exact Hle].
        assert (0 <= Rabs (B2R x * B2R y)) by apply Rabs_pos. lra.
      * split; [|exact Hle]. assert (0 <= Rabs (B2R x * B2R y)) by apply Rabs_pos. lra.
    + cbn [nth]. apply M4. cbn [length] in Hi. lia.
Qed.

Lemma F2len {A B} (Q : A -> B -> Prop) l l' : Forall2 Q l l' -> length l = length l'.
Proof. induction 1; cbn; congruence. Qed.

Lemma Jl_lanes_loop fused P : 0 <= P -> forall n N k m j (acc w s : list bfl) (racc Tl Al : list R),
  bnd (2 * n + k) (2 * n + m) (INR (n + j) * P) < top -> (n + j <= N)%nat ->
  Jl k m j P acc racc Tl Al -> length acc = 8%nat -> Forall2 (prodP P) w s -> length w = (8 * n)%nat ->
  Jl (2 * n + k) (2 * n + m) (n + j) P (@lanes_loop CB SB fused n acc w s) (@lanes_loop CR SEB fused n racc (map B2R w) (map B2R s))
     (@lanes_loop CR SR fused n Tl (map B2R w) (map B2R s)) (@lanes_loop CR SR fused n Al (map Rabs (map B2R w)) (map Rabs (map B2R s))).
Proof.
  intros HP. induction n as [|n IH]; intros N k m j acc w s racc Tl Al Hb HN H La Hws Lw.
  - cbn [lanes_loop]. exact H.
  - cbn [lanes_loop]. change (@snum CB S32) with bfl. change (@snum CR SEB) with R. change (@snum CR SR) with R.
    rewrite !firstn_map, !skipn_map.
    assert (Hb1 : bnd (S (S k)) (S (S m)) (INR (S j) * P) < top).
    { eapply Rle_lt_trans; [|exact Hb]. apply bnd_mono; try lia. split.
      - apply Rmult_le_pos; [apply pos_INR|exact HP].
      - apply Rmult_le_compat_r; [exact HP|]. apply le_INR. lia. }
    assert (F1 : length (firstn 8 w) = length acc) by (rewrite firstn_length; lia).
    assert (Hstep := Jl_mac_lanes fused k m j P HP Hb1 acc (firstn 8 w) (firstn 8 s) racc Tl Al H
                       (Forall2_firstn _ 8 _ _ Hws) F1).
    assert (Ls : length s = (8 * S n)%nat) by (rewrite <- (F2len _ _ _ Hws); exact Lw).
    assert (Lnew : length (@mac_lanes CB SB fused acc (firstn 8 w) (firstn 8 s)) = 8%nat).
    { assert (F2 : length (firstn 8 s) = length acc) by (rewrite firstn_length; lia).
      assert (Q := @mac_lanes_length CB S32 fused acc (firstn 8 w) (firstn 8 s) F1 F2).
      etransitivity; [exact Q|exact La]. }
    assert (IH' := IH N (S (S k)) (S (S m)) (S j) _ (skipn 8 w) (skipn 8 s) _ _ _
                      ltac:(replace (2 * n + S (S k))%nat with (2 * S n + k)%nat by lia;
                            replace (2 * n + S (S m))%nat with (2 * S n + m)%nat by lia;
                            replace (n + S j)%nat with (S n + j)%nat by lia; exact Hb)
                      ltac:(lia) Hstep Lnew (Forall2_skipn _ 8 _ _ Hws) ltac:(rewrite skipn_length; lia)).
    replace (2 * S n + k)%nat with (2 * n + S (S k))%nat by lia.
    replace (2 * S n + m)%nat with (2 * n + S (S m))%nat by lia.
    replace (S n + j)%nat with (n + S j)%nat by lia.
    exact IH'.
Qed.

(** ** the reduction: finite, given the bound for the total *)
Lemma J_reduce kind k m j P (acc : list bfl) (racc Tl Al : list R) : 0 <= P ->
  Jl k m j P acc racc Tl Al -> length acc = 8%nat -> bnd (7 + k) (8 * m + 7) (8 * (INR j * P)) < top ->
  is_finite (@reduce CB SB kind acc) = true.
Proof.
  intros HP (L1 & L2 & L3 & H) La Hb.
  assert (La' : length racc = 8%nat) by lia. assert (Lt : length Tl = 8%nat) by lia. assert (Ll : length Al = 8%nat) by lia.
  do 8 (destruct acc as [|? acc]; [discriminate|]). destruct acc; [|discriminate].
  destruct (len8_cases racc La') as (r0&r1&r2&r3&r4&r5&r6&r7&->).
  destruct (len8_cases Tl Lt) as (t0&t1&t2&t3&t4&t5&t6&t7&->).
  destruct (len8_cases Al Ll) as (a0&a1&a2&a3&a4&a5&a6&a7&->).
  destruct (H 0%nat ltac:(cbn; lia)) as [J0 B0]. destruct (H 1%nat ltac:(cbn; lia)) as [J1 B1].
  destruct (H 2%nat ltac:(cbn; lia)) as [J2 B2]. destruct (H 3%nat ltac:(cbn; lia)) as [J3 B3].
  destruct (H 4%nat ltac:(cbn; lia)) as [J4 B4]. destruct (H 5%nat ltac:(cbn; lia)) as [J5 B5].
  destruct (H 6%nat ltac:(cbn; lia)) as [J6 B6]. destruct (H 7%nat ltac:(cbn; lia)) as [J7 B7].
  cbn [nth] in *.
  set (Q := INR j * P) in *.
  assert (HQ : 0 <= Q) by lra.
  (* every partial sum of the abs-sums is at most 8 Q, every k at most 7 + k, every count at most 8 m + 7 *)
  assert (small : forall k' m' A, (k' <= 7 + k)%nat -> (m' <= 8 * m + 7)%nat -> 0 <= A <= 8 * Q -> bnd k' m' A < top).
  { intros k' m' A Hk Hm HA. eapply Rle_lt_trans; [|exact Hb]. apply bnd_mono; assumption. }
  pose proof (fun jj x r T A => J_mono k m (jj + k) m x r T A ltac:(lia) (le_n m)) as up.
  unfold reduce, lane. cbn [nth]. cbn [sadd S32].
  destruct kind.
  - (* scalar *)
    assert (P1 := J_add _ _ _ _ _ _ _ _ _ _ _ J0 J1 ltac:(apply small; [lia|lia|lra])).
    assert (P2 := J_add _ _ _ _ _ _ _ _ _ _ _ P1 (up 1%nat _ _ _ _ J2) ltac:(apply small; [lia|lia|lra])).
    assert (P3 := J_add _ _ _ _ _ _ _ _ _ _ _ P2 (up 2%nat _ _ _ _ J3) ltac:(apply small; [lia|lia|lra])).
    assert (P4 := J_add _ _ _ _ _ _ _ _ _ _ _ P3 (up 3%nat _ _ _ _ J4) ltac:(apply small; [lia|lia|lra])).
    assert (P5 := J_add _ _ _ _ _ _ _ _ _ _ _ P4 (up 4%nat _ _ _ _ J5) ltac:(apply small; [lia|lia|lra])).
    assert (P6 := J_add _ _ _ _ _ _ _ _ _ _ _ P5 (up 5%nat _ _ _ _ J6) ltac:(apply small; [lia|lia|lra])).
    assert (P7 := J_add _ _ _ _ _ _ _ _ _ _ _ P6 (up 6%nat _ _ _ _ J7) ltac:(apply small; [lia|lia|lra])).
    exact (proj1 P7).
  - assert (Q1 := J_add _ _ _ _ _ _ _ _ _ _ _ J0 J4 ltac:(apply small; [lia|lia|lra])).
    assert (Q2 := J_add _ _ _ _ _ _ _ _ _ _ _ J1 J5 ltac:(apply small; [lia|lia|lra])).
    assert (Q3 := J_add _ _ _ _ _ _ _ _ _ _ _ J2 J6 ltac:(apply small; [lia|lia|lra])).
    assert (Q4 := J_add _ _ _ _ _ _ _ _ _ _ _ J3 J7 ltac:(apply small; [lia|lia|lra])).
    assert (R1 := J_add _ _ _ _ _ _ _ _ _ _ _ Q1 Q2 ltac:(apply small; [lia|lia|lra])).
    assert (R2 := J_add _ _ _ _ _ _ _ _ _ _ _ Q3 Q4 ltac:(apply small; [lia|lia|lra])).
    assert (R3 := J_add _ _ _ _ _ _ _ _ _ _ _ R1 R2 ltac:(apply small; [lia|lia|lra])).
    exact (proj1 R3).
  - assert (Q1 := J_add _ _ _ _ _ _ _ _ _ _ _ J0 J2 ltac:(apply small; [lia|lia|lra])).
    assert (Q2 := J_add _ _ _ _ _ _ _ _ _ _ _ J1 J3 ltac:(apply small; [lia|lia|lra])).
    assert (Q3 := J_add _ _ _ _ _ _ _ _ _ _ _ J4 J6 ltac:(apply small; [lia|lia|lra])).
    assert (Q4 := J_add _ _ _ _ _ _ _ _ _ _ _ J5 J7 ltac:(apply small; [lia|lia|lra])).
    assert (R1 := J_add _ _ _ _ _ _ _ _ _ _ _ Q1 Q2 ltac:(apply small; [lia|lia|lra])).
    assert (R2 := J_add _ _ _ _ _ _ _ _ _ _ _ Q3 Q4 ltac:(apply small; [lia|lia|lra])).
    assert (R3 := J_add _ _ _ _ _ _ _ _ _ _ _ R1 R2 ltac:(apply small; [lia|lia|lra])).
    exact (proj1 R3).
  - assert (Q1 := J_add _ _ _ _ _ _ _ _ _ _ _ J4 J0 ltac:(apply small; [lia|lia|lra])).
    assert (Q2 := J_add _ _ _ _ _ _ _ _ _ _ _ J5 J1 ltac:(apply small; [lia|lia|lra])).
    assert (Q3 := J_add _ _ _ _ _ _ _ _ _ _ _ J6 J2 ltac:(apply small; [lia|lia|lra])).
    assert (Q4 := J_add _ _ _ _ _ _ _ _ _ _ _ J7 J3 ltac:(apply small; [lia|lia|lra])).
    assert (R1 := J_add _ _ _ _ _ _ _ _ _ _ _ Q1 Q2 ltac:(apply small; [lia|lia|lra])).
    assert (R2 := J_add _ _ _ _ _ _ _ _ _ _ _ Q3 Q4 ltac:(apply small; [lia|lia|lra])).
    assert (R3 := J_add _ _ _ _ _ _ _ _ _ _ _ R1 R2 ltac:(apply small; [lia|lia|lra])).
    exact (proj1 R3).
  - assert (Q1 := J_add _ _ _ _ _ _ _ _ _ _ _ J2 J6 ltac:(apply small; [lia|lia|lra])).
    assert (Q2 := J_add _ _ _ _ _ _ _ _ _ _ _ J0 J4 ltac:(apply small; [lia|lia|lra])).
    assert (Q3 := J_add _ _ _ _ _ _ _ _ _ _ _ J3 J7 ltac:(apply small; [lia|lia|lra])).
    assert (Q4 := J_add _ _ _ _ _ _ _ _ _ _ _ J1 J5 ltac:(apply small; [lia|lia|lra])).
    assert (R1 := J_add _ _ _ _ _ _ _ _ _ _ _ Q1 Q2 ltac:(apply small; [lia|lia|lra])).
    assert (R2 := J_add _ _ _ _ _ _ _ _ _ _ _ Q3 Q4 ltac:(apply small; [lia|lia|lra])).
    assert (R3 := J_add _ _ _ _ _ _ _ _ _ _ _ R1 R2 ltac:(apply small; [lia|lia|lra])).
    exact (proj1 R3).
Qed.

(** ** every kernel result is finite under the a-priori bound *)
Theorem kernel_finite kind (w s : list bfl) n P :
  0 <= P -> length w = (8 * n)%nat -> Forall2 (prodP P) w s ->
  bnd (2 * n + 7) (16 * n + 7) (8 * (INR n * P)) < top ->
  is_finite (@kernel CB SB kind w s) = true.
Proof.
  intros HP Hw Hws Hb. unfold kernel. change (@snum CB S32) with bfl.
  replace (Nat.div (length w) 8) with n by (rewrite Hw, Nat.mul_comm, Nat.div_mul; lia).
  change (@szero CB S32) with (B754_zero false : bfl).
  assert (H0 : Jl 0 0 0 P (repeat (B754_zero false : bfl) 8) (repeat 0 8) (repeat 0 8) (repeat 0 8)).
  { repeat (split; [reflexivity|]). intros i Hi. cbn in Hi.
    do 8 (destruct i as [|i]; [cbn; repeat split; try reflexivity; try lra;
                               [rewrite Rabs_R0; lra|unfold G; cbn; rewrite Rminus_0_r, Rabs_R0; assert (Hq := He); lra]|]). lia. }
  assert (Hb0 : bnd (2 * n + 0) (2 * n + 0) (INR (n + 0) * P) < top).
  { eapply Rle_lt_trans; [|exact Hb]. apply bnd_mono; try lia. rewrite Nat.add_0_r. split.
    - apply Rmult_le_pos; [apply pos_INR|exact HP].
    - assert (0 <= INR n * P) by (apply Rmult_le_pos; [apply pos_INR|exact HP]). lra. }
  assert (HL := Jl_lanes_loop (kernel_fused kind) P HP n n 0 0 0 _ w s _ _ _ Hb0 ltac:(lia) H0 eq_refl Hws Hw).
  assert (Len : length (@lanes_loop CB SB (kernel_fused kind) n (repeat (B754_zero false : bfl) 8) w s) = 8%nat).
  { destruct HL as (L1 & L2 & L3 & _).
    destruct (lanes_loop_sum (kernel_fused kind) n (repeat 0 8) (map B2R w) (map B2R s) eq_refl
                ltac:(rewrite map_length; exact Hw) ltac:(rewrite map_length, <- (F2len _ _ _ Hws); exact Hw)) as [L _].
    change (@snum CR SR) with R in L. etransitivity; [exact L1|]. etransitivity; [exact L2|]. exact L. }
  apply (J_reduce kind _ _ _ P _ _ _ _ HP HL Len).
  replace (7 + (2 * n + 0))%nat with (2 * n + 7)%nat by lia.
  replace (8 * (2 * n + 0) + 7)%nat with (16 * n + 7)%nat by lia.
  replace (n + 0)%nat with n by lia. exact Hb.
Qed.

(** ** the bounds of KernelSim without a finiteness hypothesis *)
Theorem kernels_close_bounded k1 k2 (w s : list bfl) n P :
  0 <= P -> length w = (8 * n)%nat -> Forall2 (prodP P) w s ->
  bnd (2 * n + 7) (16 * n + 7) (8 * (INR n * P)) < top ->
  Rabs (B2R (@kernel CB SB k1 w s) - B2R (@kernel CB SB k2 w s))
  <= 2 * (((1 + uu) ^ (2 * n + 7) - 1) * dot (map Rabs (map B2R w)) (map Rabs (map B2R s)) + INR (16 * n + 7) * (1 + uu) ^ (2 * n + 7) * ee).
Proof.
  intros HP Hw Hws Hb.
  assert (Hs : length s = (8 * n)%nat) by (rewrite <- (F2len _ _ _ Hws); exact Hw).
  apply (kernels_close_B k1 k2 w s n Hw Hs); apply (kernel_finite _ w s n P HP Hw Hws Hb).
Qed.

Theorem kernel_error_bounded kind (w s : list bfl) n P :
  0 <= P -> length w = (8 * n)%nat -> Forall2 (prodP P) w s ->
  bnd (2 * n + 7) (16 * n + 7) (8 * (INR n * P)) < top ->
  Rabs (B2R (@kernel CB SB kind w s) - dot (map B2R w) (map B2R s))
  <= ((1 + uu) ^ (2 * n + 7) - 1) * dot (map Rabs (map B2R w)) (map Rabs (map B2R s)) + INR (16 * n + 7) * (1 + uu) ^ (2 * n + 7) * ee.
Proof.
  intros HP Hw Hws Hb.
  assert (Hs : length s = (8 * n)%nat) by (rewrite <- (F2len _ _ _ Hws); exact Hw).
  apply (kernel_error_B kind w s n Hw Hs). apply (kernel_finite _ w s n P HP Hw Hws Hb).
Qed.

(** ** a concrete regime: products of magnitude at most 1, filters of up to 32768 taps *)
Lemma G_lin k : 2 * INR k * uu <= 1 -> Gk k <= 1 + 2 * INR k * uu.
Proof.
  assert (Hu' := Hu). induction k as [|k IH]; intros Hk.
  - unfold G. cbn. lra.
  - rewrite G_S. rewrite S_INR in Hk |- *.
    assert (Hk0 : 0 <= INR k) by apply pos_INR.
    assert (Hku : 0 <= INR k * uu) by (apply Rmult_le_pos; lra).
    assert (IH' : Gk k <= 1 + 2 * INR k * uu) by (apply IH; lra).
    assert (H1 : (1 + uu) * Gk k <= (1 + uu) * (1 + 2 * INR k * uu)) by (apply Rmult_le_compat_l; lra).
    assert (H2 : uu * (2 * INR k * uu) <= uu * 1) by (apply Rmult_le_compat_l; lra).
    lra.
Qed.

Theorem kernel_finite_unit kind (w s : list bfl) n :
  (n <= 4096)%nat -> length w = (8 * n)%nat -> Forall2 (prodP 1) w s ->
  is_finite (@kernel CB SB kind w s) = true.
Proof.
  intros Hn Hw Hws. apply (kernel_finite kind w s n 1 ltac:(lra) Hw Hws).
  assert (Hu' := Hu). assert (He' := He).
  assert (Hn' : INR n <= 4096).
  { apply le_INR in Hn. rewrite (INR_IZR_INZ 4096) in Hn. exact Hn. }
  assert (Ek : INR (2 * n + 7) = 2 * INR n + 7) by (rewrite plus_INR, mult_INR; simpl; lra).
  assert (Em : INR (16 * n + 7) = 16 * INR n + 7) by (rewrite plus_INR, mult_INR; simpl; lra).
  assert (Hk : INR (2 * n + 7) <= 8199) by lra.
  assert (Hm : INR (16 * n + 7) <= 65543) by lra.
  assert (Hn0 : 0 <= INR n) by apply pos_INR.
  assert (Hk0 : 0 <= INR (2 * n + 7)) by apply pos_INR. assert (Hm0 : 0 <= INR (16 * n + 7)) by apply pos_INR.
  assert (Huu : uu <= / 16777216).
  { apply Rmult_le_reg_l with 2; [lra|]. rewrite <- Rmult_assoc, Rinv_r, Rmult_1_l by lra.
    apply Rle_trans with (bpow radix2 (-23)); [apply bpow_le; lia|].
    change (bpow radix2 (-23)) with (/ IZR (Z.pow_pos 2 23)).
    let v := eval vm_compute in (Z.pow_pos 2 23) in change (Z.pow_pos 2 23) with v. lra. }
  assert (Hee : ee <= 1).
  { apply Rle_trans with (bpow radix2 0); [|cbn; lra].
    apply Rle_trans with (bpow radix2 (3 - EMAX - PREC)); [assert (H := bpow_gt_0 radix2 (3 - EMAX - PREC)); lra|apply bpow_le; lia]. }
  assert (Hlin : 2 * INR (2 * n + 7) * uu <= 1).
  { apply Rle_trans with (2 * 8199 * / 16777216); [|lra].
    apply Rmult_le_compat; try lra; try (apply Rmult_le_pos; lra). }
  assert (HG := G_lin (2 * n + 7) Hlin). assert (HG1 := G_ge1 uu Hu (2 * n + 7)).
  assert (HG2 : Gk (2 * n + 7) <= 2) by lra.
  unfold bnd.
  assert (T1 : Gk (2 * n + 7) * (8 * (INR n * 1)) <= 2 * 32768) by (apply Rmult_le_compat; lra).
  assert (T2 : INR (16 * n + 7) * Gk (2 * n + 7) * ee <= 65543 * 2 * 1).
  { apply Rmult_le_compat; try lra; [apply Rmult_le_pos; lra|]. apply Rmult_le_compat; lra. }
  apply Rle_lt_trans with (bpow radix2 18).
  - change (bpow radix2 18) with (IZR (Z.pow_pos 2 18)).
    let v := eval vm_compute in (Z.pow_pos 2 18) in change (Z.pow_pos 2 18) with v. lra.
  - apply bpow_lt. lia.
Qed.
