(** The stepping loops of the asynchronous resamplers in ideal arithmetic:
    closed form of the evaluation instants, loop-exit facts, ramp facts.          *)

From Coq Require Import ZArith Reals List Bool Lra Lia.
From Flocq Require Import Core.
From Rubato.Model Require Import Num Reals Base Async.
Import ListNotations.
Local Open Scope R_scope.

(** instant of the k-th frame of a call (k = 1 is the first): idx + k*t + inc*k*(k+1)/2 *)
Definition pos_at (idx t inc : R) (k : nat) : R := idx + INR k * t + inc * INR k * (INR k + 1) / 2.

Lemma pos_at_0 idx t inc : pos_at idx t inc 0 = idx.
Proof. unfold pos_at. cbn [INR]. lra. Qed.

Lemma pos_at_shift idx t inc k :
  pos_at (idx + (t + inc)) (t + inc) inc k = pos_at idx t inc (S k).
Proof. unfold pos_at. rewrite S_INR. nra. Qed.

Lemma pos_at_step idx t inc k :
  pos_at idx t inc (S k) - pos_at idx t inc k = t + INR (S k) * inc.
Proof. unfold pos_at. rewrite !S_INR. nra. Qed.

(** * fixed-output loop: exactly n frames *)
Lemma positions_out_spec n : forall (t inc idx : R),
  @positions_out CR Rplus Rplus n t inc idx =
  (map (pos_at idx t inc) (seq 1 n), pos_at idx t inc n).
Proof.
  induction n as [|n IH]; intros t inc idx.
  - cbn. rewrite pos_at_0. reflexivity.
  - cbn [positions_out]. rewrite IH. cbn [seq map]. f_equal.
    + f_equal. { rewrite <- pos_at_shift, pos_at_0. reflexivity. }
      rewrite <- (seq_shift _ 1), map_map. apply map_ext. intros k. apply pos_at_shift.
    + apply pos_at_shift.
Qed.

(** * fixed-input loop: while idx < E *)
Lemma positions_in_spec (E : R) fuel : forall (t inc idx : R) (ps : list R) (last : R),
  @positions_in CR Rplus Rplus (fun i => Rlt_bool i E) fuel t inc idx = Some (ps, last) ->
  let n := @length R ps in
  ps = map (pos_at idx t inc) (seq 1 n) /\ last = pos_at idx t inc n /\
  (forall k, (k < n)%nat -> pos_at idx t inc k < E) /\ E <= last /\ (n <= fuel)%nat.
Proof.
  induction fuel as [|fuel IH]; intros t inc idx ps last; cbn [positions_in].
  - case Rlt_bool_spec; intros Hc; [discriminate|].
    intros H; injection H as <- <-. cbn. rewrite pos_at_0. repeat split; try lra; try lia.
  - case Rlt_bool_spec; intros Hc.
    + destruct (@positions_in CR Rplus Rplus (fun i => Rlt_bool i E) fuel (t + inc) inc (idx + (t + inc)))
        as [[ps' last']|] eqn:E1; [|discriminate].
      intros H; injection H as <- <-.
      destruct (IH _ _ _ _ _ E1) as (Hps & Hlast & Hlt & Hge & Hn).
      cbn [length]. repeat split.
      * cbn [seq map]. f_equal. { rewrite <- pos_at_shift, pos_at_0. reflexivity. }
        rewrite Hps at 1. rewrite <- (seq_shift _ 1), map_map. apply map_ext. intros k. apply pos_at_shift.
      * rewrite Hlast. apply pos_at_shift.
      * intros k Hk. destruct k as [|k]; [rewrite pos_at_0; exact Hc|].
        rewrite <- pos_at_shift. apply Hlt. lia.
      * exact Hge.
      * lia.
    + intros H; injection H as <- <-. cbn. rewrite pos_at_0. repeat split; try lra; try lia.
Qed.

(** enough fuel: the loop terminates as soon as the steps stay above a positive bound *)
Lemma positions_in_terminates (E : R) (d : R) : 0 < d -> forall fuel (t inc idx : R),
  (forall k, (k <= fuel)%nat -> d <= t + INR (S k) * inc) ->
  E - idx < INR fuel * d ->
  exists (ps : list R) (last : R), @positions_in CR Rplus Rplus (fun i => Rlt_bool i E) fuel t inc idx = Some (ps, last).
Proof.
  intros Hd. induction fuel as [|fuel IH]; intros t inc idx Hstep Hdist; cbn [positions_in].
  - cbn in Hdist. case Rlt_bool_spec; intros Hc; [lra|]. eauto.
  - case Rlt_bool_spec; intros Hc; [|eauto].
    destruct (IH (t + inc) inc (idx + (t + inc))) as (ps & last & H).
    + intros k Hk. specialize (Hstep (S k) ltac:(lia)). rewrite !S_INR in *. lra.
    + specialize (Hstep 0%nat ltac:(lia)). cbn in Hstep. rewrite S_INR in Hdist. lra.
    + rewrite H. eauto.
Qed.

(** * Ramps (C06) *)
(* step of frame k (k >= 1) when the increment is (tend - t0)/A *)
Definition step_k (t0 tend A : R) (k : nat) : R := t0 + INR k * ((tend - t0) / A).

Lemma step_between t0 tend A k : 0 < A -> INR k <= A ->
  Rmin t0 tend <= step_k t0 tend A k <= Rmax t0 tend.
Proof.
  intros HA Hk. unfold step_k.
  assert (H0 : 0 <= INR k / A <= 1).
  { split. apply Rmult_le_pos; [apply pos_INR | left; apply Rinv_0_lt_compat; lra].
    apply Rmult_le_reg_r with A; [lra|]. unfold Rdiv. rewrite Rmult_assoc, Rinv_l by lra. lra. }
  replace (INR k * ((tend - t0) / A)) with ((INR k / A) * (tend - t0)) by (unfold Rdiv; ring).
  unfold Rmin, Rmax. destruct (Rle_dec t0 tend); split; nra.
Qed.

Lemma step_monotone t0 tend A k : 0 < A ->
  (t0 <= tend -> step_k t0 tend A k <= step_k t0 tend A (S k)) /\
  (tend <= t0 -> step_k t0 tend A (S k) <= step_k t0 tend A k).
Proof.
  intros HA. unfold step_k. rewrite S_INR.
  assert (0 < / A) by (apply Rinv_0_lt_compat; lra).
  split; intros H1; unfold Rdiv; nra.
Qed.

Lemma step_exact_end t0 tend A n : 0 < A -> INR n = A -> step_k t0 tend A n = tend.
Proof. intros HA Hn. unfold step_k. rewrite Hn. field. lra. Qed.

Lemma step_no_ramp t0 A k : step_k t0 t0 A k = t0.
Proof. unfold step_k. unfold Rdiv. rewrite Rminus_diag_eq by reflexivity. ring. Qed.

Lemma step_positive t0 tend A k : 0 < A -> INR k <= A -> 0 < t0 -> 0 < tend -> 0 < step_k t0 tend A k.
Proof.
  intros HA Hk H0 H1. destruct (step_between t0 tend A k HA Hk) as [H _].
  eapply Rlt_le_trans; [|exact H]. unfold Rmin. destruct (Rle_dec t0 tend); assumption.
Qed.
