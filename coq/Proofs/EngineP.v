(** Success lemmas for the stages of the asynchronous engine (any arithmetic).      *)

From Coq Require Import ZArith List Bool Lia.
From Rubato.Model Require Import Num Base Validate Async.
From Rubato.Proofs Require Import ShapeP ValidateP.
Import ListNotations.
Local Open Scope Z_scope.

Section Engine.
Context {C : CNum} {S : SNum C}.

Definition all_len (blen : Z) (bufs : list (list snum)) : Prop := Forall (fun b => zlen b = blen) bufs.

Lemma shift_all_ok blen lo hi dst : 0 <= lo -> lo <= hi -> hi <= blen -> 0 <= dst -> dst + (hi - lo) <= blen ->
  forall bufs, all_len blen bufs ->
  exists bufs', shift_all bufs lo hi dst = Ok bufs' /\ all_len blen bufs' /\ length bufs' = length bufs.
Proof.
  intros H1 H2 H3 H4 H5 bufs. induction bufs as [|b bs IH]; intros Hl.
  - exists []. repeat split. constructor.
  - inversion Hl as [|? ? Hb Hbs]; subst. destruct (IH Hbs) as (bs' & E & L' & N).
    destruct (copy_within_some b lo hi dst) as (b' & Eb & Lb); try lia.
    cbn [shift_all]. rewrite Eb, E. cbn [bind]. exists (b' :: bs'). repeat split.
    + constructor; [lia|assumption].
    + cbn; lia.
Qed.

(* an active channel needs at least [sh] input frames *)
Definition waves_ok (sh : Z) (waves : list (list snum)) (mask : list bool) : Prop :=
  forall k w, nth_error waves k = Some w -> nth_error mask k = Some true -> sh <= zlen w.

Lemma fill_all_ok {St} (A : arch St) st blen :
  let lo := a_fill_lo A st in let hi := a_fill_hi A st in let sh := a_fill_src_hi A st in
  0 <= lo -> lo <= hi -> hi <= blen -> hi - lo = sh ->
  forall bufs waves mask, all_len blen bufs -> length waves = length bufs -> length mask = length bufs ->
  waves_ok sh waves mask ->
  exists bufs', fill_all A st bufs waves mask = Ok bufs' /\ all_len blen bufs' /\ length bufs' = length bufs.
Proof.
  intros lo hi sh H1 H2 H3 H4 bufs. induction bufs as [|b bs IH]; intros waves mask Hl Hw Hm Hok.
  - exists []. repeat split. constructor.
  - destruct mask as [|m ms]; [discriminate|]. destruct waves as [|w ws]; [discriminate|].
    inversion Hl as [|? ? Hb Hbs]; subst.
    destruct (IH ws ms Hbs) as (bs' & E & L' & N); try (cbn in *; lia).
    { intros k w' Hk Hk'. apply (Hok (Datatypes.S k) w'); assumption. }
    cbn [fill_all tl].
    assert (Eb : exists b', (if m then fill_channel A st b w else Ok b) = Ok b' /\ zlen b' = zlen b).
    { destruct m; [|eauto]. unfold fill_channel. fold lo hi sh.
      assert (Hwl : sh <= zlen w) by (apply (Hok 0%nat w); reflexivity).
      assert (R1 : in_range b lo hi = true) by (apply in_range_iff; lia).
      assert (R2 : in_range w 0 sh = true) by (apply in_range_iff; lia).
      rewrite R1, R2. cbn [negb]. rewrite (proj2 (Z.eqb_eq _ _) H4). cbn [negb].
      eexists; split; [reflexivity|]. apply splice_length; [lia|]. rewrite slice_length by lia. lia. }
    destruct Eb as (b' & Eb & Lb). rewrite Eb. cbn [bind]. rewrite E. cbn [bind].
    exists (b' :: bs'). repeat split; [constructor; [lia|assumption] | cbn; lia].
Qed.

(* every position can be sampled from any buffer of the right length *)
Definition samples_ok {St} (A : arch St) st blen (ps : list cnum) : Prop :=
  forall b p, zlen b = blen -> In p ps -> exists v, a_sample A st b p = Ok v.

Lemma samples_at_ok (f : cnum -> res snum) ps :
  (forall p, In p ps -> exists v, f p = Ok v) -> exists vs, samples_at f ps = Ok vs /\ length vs = length ps.
Proof.
  induction ps as [|p ps IH]; intros H.
  - exists []. split; reflexivity.
  - destruct (H p (or_introl eq_refl)) as (v & Ev). destruct IH as (vs & Evs & Lv).
    { intros q Hq. apply H. right. exact Hq. }
    cbn [samples_at]. rewrite Ev, Evs. cbn [bind]. exists (v :: vs). split; [reflexivity | cbn; lia].
Qed.

Definition outs_ok (n : nat) (outs : list (list snum)) (mask : list bool) : Prop :=
  forall k o, nth_error outs k = Some o -> nth_error mask k = Some true -> (n <= length o)%nat.

Lemma outputs_all_ok {St} (A : arch St) st blen ps : samples_ok A st blen ps ->
  forall bufs outs mask, all_len blen bufs -> outs_ok (length ps) outs mask ->
  exists outs', outputs_all A st bufs outs mask ps = Ok outs' /\ length outs' = length outs /\
                (forall k o o', nth_error outs k = Some o -> nth_error outs' k = Some o' -> length o' = length o).
Proof.
  intros Hs bufs. induction bufs as [|b bs IH]; intros outs mask Hl Ho.
  - exists outs. cbn. repeat split. intros k o o' H1 H2. congruence.
  - cbn [outputs_all]. destruct outs as [|o os]; [exists []; cbn; repeat split; intros k ? ? H; destruct k; discriminate|].
    destruct mask as [|m ms].
    { exists (o :: os). repeat split. intros k ? ? H1 H2. congruence. }
    inversion Hl as [|? ? Hb Hbs]; subst.
    destruct (IH os ms Hbs) as (os' & E & N & P).
    { intros k o0 H1 H2. apply (Ho (Datatypes.S k) o0); assumption. }
    assert (Eo : exists o', (if m then
                  do vals <- samples_at (a_sample A st b) ps;
                  if (length vals <=? length o)%nat then Ok (write_prefix o vals)
                  else if a_write_checked A then Panic PSliceIndex else UB UBWriteOOB
                else Ok o) = Ok o' /\ length o' = length o).
    { destruct m; [|eauto].
      destruct (samples_at_ok (a_sample A st b) ps) as (vs & Evs & Lv).
      { intros p Hp. apply (Hs b p); [reflexivity|exact Hp]. }
      rewrite Evs. cbn [bind]. assert (Hle : (length ps <= length o)%nat) by (apply (Ho 0%nat o); reflexivity).
      rewrite (proj2 (Nat.leb_le _ _)) by lia. eexists; split; [reflexivity|].
      unfold write_prefix. rewrite app_length, skipn_length. lia. }
    destruct Eo as (o' & Eo & Lo). rewrite Eo. cbn [bind]. rewrite E. cbn [bind].
    exists (o' :: os'). repeat split; [cbn; lia|].
    intros k x x' H1 H2. destruct k; cbn in H1, H2.
    + injection H1 as <-. injection H2 as <-. exact Lo.
    + eapply P; eassumption.
Qed.

End Engine.

(* the control part of the state after a call is a_finish (a_pre st) last, whatever the mask *)
Lemma pib_ctl {C : CNum} {S : SNum C} {St} (B : arch St) (s s' : astate St) wi wo m cnt outs :
  pib B s wi wo m = Ok (s', cnt, outs) -> exists last, as_ctl s' = a_finish B (a_pre B (as_ctl s)) last.
Proof.
  unfold pib.
  match goal with |- context [bind ?x _] => destruct x as [mask| | | |] end; cbn [bind]; try discriminate.
  destruct (validate_buffers _ _ _ _ _ _) as [[]| | | |]; cbn [bind]; try discriminate.
  destruct (shift_all _ _ _ _) as [bufs1| | | |]; cbn [bind]; try discriminate.
  destruct (fill_all _ _ _ _ _) as [bufs2| | | |]; cbn [bind]; try discriminate.
  match goal with |- context [bind ?x _] => destruct x as [[ps last]| | | |] end; cbn [bind]; try discriminate.
  destruct (outputs_all _ _ _ _ _ _) as [o| | | |]; cbn [bind]; try discriminate.
  intros H. injection H as <- _ _. exists last. reflexivity.
Qed.

