(** C11 end to end (ideal arithmetic, calls without a mask): channel c of an n-channel resampler produces the stream that a
    single-channel resampler produces when fed channel c's signal.  Corollaries of the stream theorems of C05: the stream
    of a channel is a function of that channel's input and of the control state only.                                  *)

From Coq Require Import ZArith Reals List Bool Lia.
From Rubato.Model Require Import Num Reals Base Validate Async Resamplers.
From Rubato.Proofs Require Import MalformedP ContentP FastInR StreamR NearestR SincInR SincStreamR.
Import ListNotations.
Local Open Scope R_scope.

Theorem fast_in_projection_R ratio0 maxrel d chunk nch sN s1 (c : nat) (X : Z -> R) callsN calls1 :
  (1 <= chunk)%Z -> (0 <= nch)%Z -> (c < Z.to_nat nch)%nat ->
  @fast_in_new CR SR ratio0 maxrel d chunk nch = inr (RFastIn d sN) ->
  @fast_in_new CR SR ratio0 maxrel d chunk 1 = inr (RFastIn d s1) ->
  (forall n, (n < 0)%Z -> X n = 0) ->
  fed c X 0 chunk callsN -> fed 0 X 0 chunk calls1 ->
  forall rN r1 ysN ys1, fi_stream d c sN callsN = Ok (rN, ysN) -> fi_stream d 0 s1 calls1 = Ok (r1, ys1) ->
  forall j, (0 <= j < zlen ysN)%Z -> (j < zlen ys1)%Z -> getz 0 ysN j = getz 0 ys1 j.
Proof.
  intros Hc Hn Hcn N1 N2 HX F1 F2.
  apply (fi_chunk_independent_R ratio0 maxrel maxrel d chunk chunk nch 1 sN s1 c 0%nat X callsN calls1); try assumption; try lia.
Qed.

Theorem sinc_in_projection_R ratio0 maxrel env ilen inbr chunk nch sN s1 (c : nat) (X : Z -> R) opsN ops1 :
  (1 <= chunk)%Z -> (0 <= nch)%Z -> (8 <= ilen)%Z -> nbr_ok (se_type env) inbr -> (c < Z.to_nat nch)%nat ->
  @sinc_in_new CR SR ratio0 maxrel env ilen inbr chunk nch = inr (RSincIn env sN) ->
  @sinc_in_new CR SR ratio0 maxrel env ilen inbr chunk 1 = inr (RSincIn env s1) ->
  (forall n, (n < 0)%Z -> X n = 0) ->
  sfed env c X 0 sN opsN -> sfed env 0 X 0 s1 ops1 ->
  forall rN r1 ysN ys1, si_stream env c sN opsN = Ok (rN, ysN) -> si_stream env 0 s1 ops1 = Ok (r1, ys1) ->
  forall j, (0 <= j < zlen ysN)%Z -> (j < zlen ys1)%Z -> getz 0 ysN j = getz 0 ys1 j.
Proof.
  intros Hc Hn HL Hnb Hcn N1 N2 HX F1 F2 rN r1 ysN ys1 E1 E2 j Hj1 Hj2.
  generalize (si_fresh_stream_R ratio0 maxrel env ilen inbr chunk nch sN c X opsN Hc Hn HL Hnb Hcn N1 HX F1). rewrite E1. destruct rN as [? ?]. intros V1.
  generalize (si_fresh_stream_R ratio0 maxrel env ilen inbr chunk 1 s1 0%nat X ops1 Hc ltac:(lia) HL Hnb ltac:(lia) N2 HX F2). rewrite E2. destruct r1 as [? ?]. intros V2.
  rewrite V1, V2 by lia. reflexivity.
Qed.
