(** C11, end to end, in every arithmetic and with masks: non-interference between channels.
    Two calls of process_into_buffer on resamplers that agree on the control record, on the stored mask, on the mask
    argument and on everything that belongs to channel c (its internal buffer, its input and output slices) -- and
    differ arbitrarily in every other channel -- produce the same new control record, the same counts, the same new
    internal buffer of channel c and the same output slice of channel c.  Hence channel c's stream is a function of
    channel c's data and of the control state alone; a masked channel comes back untouched (ChannelsP).            *)

From Coq Require Import ZArith List Bool Lia.
From Rubato.Model Require Import Num Base Validate Async.
From Rubato.Proofs Require Import ChannelsP.
Import ListNotations.
Local Open Scope Z_scope.

Section NonInterf.
Context {C : CNum} {S : SNum C}.

Definition eff_mask {St} (s : astate St) (m : option (list bool)) : list bool :=
  match m with Some mk => mk | None => map (fun _ => true) (as_mask s) end.

(* the stages of a successful call, for any mask argument *)
Lemma pib_stages {St} (A : arch St) (s : astate St) wi wo m s' cnt outs :
  pib A s wi wo m = Ok (s', cnt, outs) ->
  let st := as_ctl s in let st1 := a_pre A st in let mask := eff_mask s m in
  exists bufs1 bufs2 ps last,
    shift_all (as_buf s) (a_shift_lo A st) (a_shift_hi A st) (a_shift_dst A st) = Ok bufs1 /\
    fill_all A st1 bufs1 wi mask = Ok bufs2 /\
    (if a_fixed_in A then
       exists fuel, positions_in (a_tstep A st1) (a_istep A st1) (a_cond A st1 (a_end_idx A st1 (a_tend A st1))) fuel
                      (a_t0 A st1) (a_inc A st1 (a_tend A st1) (a_t0 A st1)) (a_idx0 A st1) = Some (ps, last)
     else positions_out (a_tstep A st1) (a_istep A st1) (Z.to_nat (a_bound A st1))
                      (a_t0 A st1) (a_inc A st1 (a_tend A st1) (a_t0 A st1)) (a_idx0 A st1) = (ps, last)) /\
    outputs_all A st1 bufs2 wo mask ps = Ok outs /\
    s' = mk_astate (a_finish A st1 last) bufs2 mask /\
    cnt = a_ret A st1 (a_finish A st1 last) (Z.of_nat (length ps)).
Proof.
  unfold pib, eff_mask.
  destruct m as [mk|]; [destruct (a_mask_bad A (as_ctl s) (zlen mk)); cbn [bind]; [discriminate|] | cbn [bind]].
  - destruct (validate_buffers _ _ _ _ _ _) as [[]| | | |]; cbn [bind]; try discriminate.
    destruct (shift_all _ _ _ _) as [bufs1| | | |] eqn:E1; cbn [bind]; try discriminate.
    destruct (fill_all _ _ _ _ _) as [bufs2| | | |] eqn:E2; cbn [bind]; try discriminate.
    intros H. exists bufs1, bufs2.
    destruct (a_fixed_in A) eqn:Ef.
    + match type of H with context [positions_in ?a ?b ?c ?fuel ?t ?i ?x] => destruct (positions_in a b c fuel t i x) as [[ps last]|] eqn:Ep end.
      * cbn [bind] in H. destruct (outputs_all _ _ _ _ _ _) as [o| | | |] eqn:Eo; cbn [bind] in H; try discriminate.
        injection H as <- <- <-. exists ps, last.
        split; [reflexivity|]. split; [exact E2|]. split; [eexists; exact Ep|]. split; [exact Eo|]. split; reflexivity.
      * destruct (min_active_out _ _); [destruct (a_write_checked A)|]; discriminate.
    + cbn [bind] in H.
      match type of H with context [positions_out ?a ?b ?n ?t ?i ?x] => destruct (positions_out a b n t i x) as [ps last] eqn:Ep end.
      destruct (outputs_all _ _ _ _ _ _) as [o| | | |] eqn:Eo; cbn [bind] in H; try discriminate.
      injection H as <- <- <-. exists ps, last.
      split; [reflexivity|]. split; [exact E2|]. split; [reflexivity|]. split; [exact Eo|]. split; reflexivity.
  - destruct (validate_buffers _ _ _ _ _ _) as [[]| | | |]; cbn [bind]; try discriminate.
    destruct (shift_all _ _ _ _) as [bufs1| | | |] eqn:E1; cbn [bind]; try discriminate.
    destruct (fill_all _ _ _ _ _) as [bufs2| | | |] eqn:E2; cbn [bind]; try discriminate.
    intros H. exists bufs1, bufs2.
    destruct (a_fixed_in A) eqn:Ef.
    + match type of H with context [positions_in ?a ?b ?c ?fuel ?t ?i ?x] => destruct (positions_in a b c fuel t i x) as [[ps last]|] eqn:Ep end.
      * cbn [bind] in H. destruct (outputs_all _ _ _ _ _ _) as [o| | | |] eqn:Eo; cbn [bind] in H; try discriminate.
        injection H as <- <- <-. exists ps, last.
        split; [reflexivity|]. split; [exact E2|]. split; [eexists; exact Ep|]. split; [exact Eo|]. split; reflexivity.
      * destruct (min_active_out _ _); [destruct (a_write_checked A)|]; discriminate.
    + cbn [bind] in H.
      match type of H with context [positions_out ?a ?b ?n ?t ?i ?x] => destruct (positions_out a b n t i x) as [ps last] eqn:Ep end.
      destruct (outputs_all _ _ _ _ _ _) as [o| | | |] eqn:Eo; cbn [bind] in H; try discriminate.
      injection H as <- <- <-. exists ps, last.
      split; [reflexivity|]. split; [exact E2|]. split; [reflexivity|]. split; [exact Eo|]. split; reflexivity.
Qed.

Theorem pib_channel_noninterference {St} (A : arch St) (s1 s2 : astate St) wi1 wi2 wo1 wo2 m c b o mc
        s1' s2' cnt1 cnt2 o1 o2 :
  as_ctl s1 = as_ctl s2 -> as_mask s1 = as_mask s2 ->
  nth_error (as_buf s1) c = Some b -> nth_error (as_buf s2) c = Some b ->
  nth_error wi1 c = nth_error wi2 c ->
  nth_error wo1 c = Some o -> nth_error wo2 c = Some o ->
  nth_error (eff_mask s1 m) c = Some mc ->
  pib A s1 wi1 wo1 m = Ok (s1', cnt1, o1) -> pib A s2 wi2 wo2 m = Ok (s2', cnt2, o2) ->
  as_ctl s1' = as_ctl s2' /\ cnt1 = cnt2 /\ as_mask s1' = as_mask s2' /\
  exists b' o', nth_error (as_buf s1') c = Some b' /\ nth_error (as_buf s2') c = Some b' /\
                nth_error o1 c = Some o' /\ nth_error o2 c = Some o' /\
                (mc = false -> o' = o).
Proof.
  intros Ectl Emask Hb1 Hb2 Hwi Ho1 Ho2 Hmc P1 P2.
  apply pib_stages in P1. apply pib_stages in P2. cbv zeta in P1, P2.
  assert (Eeff : eff_mask s2 m = eff_mask s1 m) by (unfold eff_mask; rewrite Emask; reflexivity).
  rewrite <- Ectl, Eeff in P2.
  set (st := as_ctl s1) in *. set (st1 := a_pre A st) in *. set (mask := eff_mask s1 m) in *.
  destruct P1 as (ba1 & ba2 & ps1 & l1 & Sa & Fa & Pa & Oa & -> & ->).
  destruct P2 as (bb1 & bb2 & ps2 & l2 & Sb & Fb & Pb & Ob & -> & ->).
  (* the instants are the same *)
  assert (Eps : (ps1, l1) = (ps2, l2)).
  { destruct (a_fixed_in A).
    - destruct Pa as (f1 & Pa). destruct Pb as (f2 & Pb).
      pose proof (positions_in_fuel_mono _ _ _ f1 (Nat.max f1 f2) _ _ _ _ (Nat.le_max_l _ _) Pa) as Qa.
      pose proof (positions_in_fuel_mono _ _ _ f2 (Nat.max f1 f2) _ _ _ _ (Nat.le_max_r _ _) Pb) as Qb.
      rewrite Qa in Qb. injection Qb as -> ->. reflexivity.
    - rewrite Pa in Pb. exact Pb. }
  injection Eps as -> ->.
  cbn [as_ctl as_buf as_mask]. split; [reflexivity|]. split; [reflexivity|]. split; [reflexivity|].
  (* channel c through the three per-channel stages *)
  destruct (shift_all_nth _ _ _ _ _ c b Sa Hb1) as (x1 & Hx1 & Cx1).
  destruct (shift_all_nth _ _ _ _ _ c b Sb Hb2) as (x2 & Hx2 & Cx2).
  rewrite Cx1 in Cx2. injection Cx2 as <-.
  destruct (fill_all_nth A st1 _ _ _ _ c x1 mc Fa Hx1 Hmc) as (y1 & Hy1 & Fy1).
  destruct (fill_all_nth A st1 _ _ _ _ c x1 mc Fb Hx2 Hmc) as (y2 & Hy2 & Fy2).
  assert (Ey : y2 = y1).
  { destruct mc.
    - destruct Fy1 as (w1 & Hw1 & Fw1). destruct Fy2 as (w2 & Hw2 & Fw2).
      rewrite Hwi, Hw2 in Hw1. injection Hw1 as <-. rewrite Fw1 in Fw2. injection Fw2 as <-. reflexivity.
    - rewrite Fy1, Fy2. reflexivity. }
  subst y2.
  destruct (outputs_all_nth A st1 _ _ _ _ _ c y1 o mc Oa Hy1 Ho1 Hmc) as (z1 & Hz1 & Oz1).
  destruct (outputs_all_nth A st1 _ _ _ _ _ c y1 o mc Ob Hy2 Ho2 Hmc) as (z2 & Hz2 & Oz2).
  assert (Ez : z2 = z1).
  { destruct mc.
    - destruct Oz1 as (v1 & Sv1 & ->). destruct Oz2 as (v2 & Sv2 & ->). rewrite Sv1 in Sv2. injection Sv2 as <-. reflexivity.
    - rewrite Oz1, Oz2. reflexivity. }
  subst z2.
  exists y1, z1. repeat split; try assumption.
  intros ->. exact Oz1.
Qed.

End NonInterf.
