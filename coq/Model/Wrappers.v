(** lib.rs: the convenience wrappers of the Resampler trait, generic over any
    core (process_into_buffer + getters).                                       *)

From Coq Require Import ZArith List Bool.
From Rubato.Model Require Import Num Base.
Import ListNotations.
Local Open Scope Z_scope.

Section Wrappers.
Context {C : CNum} {S : SNum C}.
Context {X : Type}.
Variable core_pib : X -> list (list snum) -> list (list snum) -> option (list bool)
                    -> res (X * (Z * Z) * list (list snum)).
Variable in_next out_next nch : X -> Z.

Definition wzeros (n : Z) : list snum := repeat szero (Z.to_nat n).

(* active_channels_mask.and_then(|mask| mask.get(chan).copied()).unwrap_or(true) *)
Definition mask_get (m : option (list bool)) (chan : nat) : bool :=
  match m with Some mk => nth chan mk true | None => true end.

Definition alloc_out (x : X) (m : option (list bool)) : list (list snum) :=
  map (fun chan => if mask_get m chan then wzeros (out_next x) else []) (seq 0 (Z.to_nat (nch x))).

Definition truncate_all (outs : list (list snum)) (n : Z) : list (list snum) :=
  map (fun o => firstn (Z.to_nat n) o) outs.

(** Resampler::process *)
Definition w_process (x : X) (wave_in : list (list snum)) (m : option (list bool))
  : res (X * list (list snum)) :=
  let wave_out := alloc_out x m in
  do r <- core_pib x wave_in wave_out m;
  let '(x', (_, out_len), outs) := r in
  Ok (x', truncate_all outs out_len).

(* zero-padded copy of the partial input: one padded channel per resampler channel *)
Fixpoint pad_channels (frames : Z) (padded : list (list snum)) (input : list (list snum)) : list (list snum) :=
  match padded, input with
  | p :: ps, i :: is_ =>
      let frames_in := Z.min (Z.of_nat (length i)) frames in
      (if 0 <? frames_in then firstn (Z.to_nat frames_in) i ++ skipn (Z.to_nat frames_in) p else [])
        :: pad_channels frames ps is_
  | ps, _ => ps
  end.

Definition padded_input (x : X) (wave_in : option (list (list snum))) : list (list snum) :=
  let frames := in_next x in
  let padded := repeat (wzeros frames) (Z.to_nat (nch x)) in
  match wave_in with Some input => pad_channels frames padded input | None => padded end.

(** Resampler::process_partial_into_buffer *)
Definition w_partial_into (x : X) (wave_in : option (list (list snum))) (wave_out : list (list snum))
           (m : option (list bool)) : res (X * (Z * Z) * list (list snum)) :=
  core_pib x (padded_input x wave_in) wave_out m.

(** Resampler::process_partial *)
Definition w_partial (x : X) (wave_in : option (list (list snum))) (m : option (list bool))
  : res (X * list (list snum)) :=
  let wave_out := alloc_out x m in
  do r <- w_partial_into x wave_in wave_out m;
  let '(x', (_, out_len), outs) := r in
  Ok (x', truncate_all outs out_len).

End Wrappers.
