(** One step function over all operations of the public API: what the
    correspondence driver runs and what the history-level theorems quantify over. *)

From Coq Require Import ZArith List Bool.
From Rubato.Model Require Import Num Base Validate Nearest Kernels Async Fft Resamplers Wrappers.
Import ListNotations.
Local Open Scope Z_scope.

Section Driver.
Context {C : CNum} {S : SNum C}.
Variable unit_fn : list snum -> list snum.

Inductive op : Type :=
| OpPib (wi wo : list (list snum)) (m : option (list bool))
| OpProcess (wi : list (list snum)) (m : option (list bool))
| OpPartialInto (wi : option (list (list snum))) (wo : list (list snum)) (m : option (list bool))
| OpPartial (wi : option (list (list snum))) (m : option (list bool))
| OpSetRatio (x : cnum) (ramp : bool)
| OpSetRel (x : cnum) (ramp : bool)
| OpSetChunk (n : Z)
| OpReset.

Inductive outcome : Type :=
| OCounts (nin nout : Z) (outs : list (list snum))
| OVecs (outs : list (list snum))
| OUnit
| OErr (e : rerr)
| OPanic (p : panic_kind)
| OUB (u : ub_kind)
| ODiverge.

Definition fatal (o : outcome) : bool :=
  match o with OPanic _ | OUB _ | ODiverge => true | _ => false end.

Definition of_res {A} (r : res A) (k : A -> rstate * outcome) (s : rstate) : rstate * outcome :=
  match r with
  | Ok a => k a
  | Err e => (s, OErr e)
  | Panic p => (s, OPanic p)
  | UB u => (s, OUB u)
  | Diverge => (s, ODiverge)
  end.

Definition pibf := r_pib unit_fn.
Definition g_next_in (s : rstate) := g_in_next (r_getters s).
Definition g_next_out (s : rstate) := g_out_next (r_getters s).
Definition g_chans (s : rstate) := g_nch (r_getters s).

Definition step (s : rstate) (o : op) : rstate * outcome :=
  match o with
  | OpPib wi wo m =>
      of_res (pibf s wi wo m) (fun '(s', (a, b), outs) => (s', OCounts a b outs)) s
  | OpProcess wi m =>
      of_res (w_process pibf g_next_out g_chans s wi m) (fun '(s', outs) => (s', OVecs outs)) s
  | OpPartialInto wi wo m =>
      of_res (w_partial_into pibf g_next_in g_chans s wi wo m) (fun '(s', (a, b), outs) => (s', OCounts a b outs)) s
  | OpPartial wi m =>
      of_res (w_partial pibf g_next_in g_next_out g_chans s wi m) (fun '(s', outs) => (s', OVecs outs)) s
  | OpSetRatio x ramp => let '(s', r) := r_set_ratio s x ramp in of_res r (fun _ => (s', OUnit)) s
  | OpSetRel x ramp => let '(s', r) := r_set_rel s x ramp in of_res r (fun _ => (s', OUnit)) s
  | OpSetChunk n => let '(s', r) := r_set_chunk s n in of_res r (fun _ => (s', OUnit)) s
  | OpReset => (r_reset s, OUnit)
  end.

(* run a history; stops at the first fatal outcome (the real process is gone) *)
Fixpoint run (s : rstate) (ops : list op) : rstate * list outcome :=
  match ops with
  | [] => (s, [])
  | o :: rest =>
      let '(s', out) := step s o in
      if fatal out then (s', [out])
      else let '(s'', outs) := run s' rest in (s'', out :: outs)
  end.

End Driver.
