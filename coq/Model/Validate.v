(** lib.rs: validate_buffers and the mask prologue shared by every
    process_into_buffer. Only lengths matter, so buffers appear as their
    per-channel lengths where possible.                                         *)

From Coq Require Import ZArith List Bool.
From Rubato.Model Require Import Num Base.
Import ListNotations.
Local Open Scope Z_scope.

Section Validate.
Context {C : CNum}.

(* first active channel (in index order) shorter than [minlen]: (channel, actual) *)
Fixpoint first_short (lens : list Z) (mask : list bool) (minlen : Z) (chan : Z) : option (Z * Z) :=
  match lens, mask with
  | l :: ls, m :: ms =>
      if m && (l <? minlen) then Some (chan, l) else first_short ls ms minlen (chan + 1)
  | _, _ => None
  end.

(** validate_buffers(wave_in, wave_out, mask, channels, min_input_len, min_output_len),
    checks in source order. *)
Definition validate_buffers (in_lens out_lens : list Z) (mask : list bool)
           (channels min_in min_out : Z) : res unit :=
  if negb (zlen in_lens =? channels) then
    Err (ErrWrongNumberOfInputChannels channels (zlen in_lens))
  else if negb (zlen mask =? channels) then
    Err (ErrWrongNumberOfMaskChannels channels (zlen mask))
  else match first_short in_lens mask min_in 0 with
  | Some (c, a) => Err (ErrInsufficientInputBufferSize c min_in a)
  | None =>
    if negb (zlen out_lens =? channels) then
      Err (ErrWrongNumberOfOutputChannels channels (zlen out_lens))
    else match first_short out_lens mask min_out 0 with
    | Some (c, a) => Err (ErrInsufficientOutputBufferSize c min_out a)
    | None => Ok tt
    end
  end.

(** The prologue of every process_into_buffer: a supplied mask must have one
    entry per channel (otherwise Err before anything is touched); None means
    all channels active. *)
Definition mask_prologue (channels : Z) (m : option (list bool)) : res (list bool) :=
  match m with
  | Some mask =>
      if negb (zlen mask =? channels)
      then Err (ErrWrongNumberOfMaskChannels channels (zlen mask))
      else Ok mask
  | None => Ok (all_true channels)
  end.

End Validate.
