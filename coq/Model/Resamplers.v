(** The seven resampler types behind one interface: constructors, setters,
    getters, reset, set_chunk_size, process_into_buffer.                       *)

From Coq Require Import ZArith List Bool.
From Rubato.Model Require Import Num Base Validate Nearest Kernels Async Fft.
From Rubato.Gen Require Import FastGen SincGen SynchroGen.
Import ListNotations.
Local Open Scope Z_scope.

Section Resamplers.
Context {C : CNum} {S : SNum C}.
Variable unit_fn : list snum -> list snum.

Definition zeros (n : Z) : list snum := repeat szero (Z.to_nat n).
Definition zero_like (b : list (list snum)) : list (list snum) := map (fun ch => map (fun _ => szero) ch) b.
Definition chans {A} (n : Z) (x : A) : list A := repeat x (Z.to_nat n).

Inductive rstate : Type :=
| RFastIn (d : degree) (s : astate FastFixedIn)
| RFastOut (d : degree) (s : astate FastFixedOut)
| RSincIn (env : sinc_env) (s : astate SincFixedIn)
| RSincOut (env : sinc_env) (s : astate SincFixedOut)
| RFftIn (s : fstate FftFixedIn)
| RFftOut (s : fstate FftFixedOut)
| RFftInOut (s : fstate FftFixedInOut).

(** * Constructors *)
Definition validate_ratios_fast (ratio maxrel : cnum) : option cerr :=
  if fast_validate_ratio_bad ratio then Some (CErrInvalidRatio ratio)
  else if fast_validate_maxrel_bad maxrel then Some (CErrInvalidRelativeRatio maxrel)
  else if fast_validate_range_bad maxrel ratio then Some (CErrInvalidRelativeRatio maxrel)
  else None.
Definition validate_ratios_sinc (ratio maxrel : cnum) : option cerr :=
  if sinc_validate_ratio_bad ratio then Some (CErrInvalidRatio ratio)
  else if sinc_validate_maxrel_bad maxrel then Some (CErrInvalidRelativeRatio maxrel)
  else if sinc_validate_range_bad maxrel ratio then Some (CErrInvalidRelativeRatio maxrel)
  else None.

Definition fast_in_new (ratio maxrel : cnum) (d : degree) (chunk nch : Z) : cerr + rstate :=
  match validate_ratios_fast ratio maxrel with
  | Some e => inl e
  | None =>
    let st := default_FastFixedIn in
    let st := set_FastFixedIn_nbr_channels st nch in
    let st := set_FastFixedIn_chunk_size st chunk in
    let st := set_FastFixedIn_last_index st fi_new_last_index in
    let st := set_FastFixedIn_resample_ratio st ratio in
    let st := set_FastFixedIn_resample_ratio_original st ratio in
    let st := set_FastFixedIn_target_ratio st ratio in
    let st := set_FastFixedIn_max_relative_ratio st maxrel in
    inr (RFastIn d (mk_astate st (chans nch (zeros (fi_new_buffer_len chunk))) (chans nch true)))
  end.

Definition fast_out_new (ratio maxrel : cnum) (d : degree) (chunk nch : Z) : cerr + rstate :=
  match validate_ratios_fast ratio maxrel with
  | Some e => inl e
  | None =>
    let needed := fo_new_needed_input_size chunk ratio in
    let blen := fo_new_buffer_channel_length maxrel needed in
    let st := default_FastFixedOut in
    let st := set_FastFixedOut_nbr_channels st nch in
    let st := set_FastFixedOut_chunk_size st chunk in
    let st := set_FastFixedOut_needed_input_size st needed in
    let st := set_FastFixedOut_last_index st fo_new_last_index in
    let st := set_FastFixedOut_current_buffer_fill st needed in
    let st := set_FastFixedOut_resample_ratio st ratio in
    let st := set_FastFixedOut_resample_ratio_original st ratio in
    let st := set_FastFixedOut_target_ratio st ratio in
    let st := set_FastFixedOut_max_relative_ratio st maxrel in
    inr (RFastOut d (mk_astate st (chans nch (zeros blen)) (chans nch true)))
  end.

(* new_with_interpolator: the interpolator is (len, nbr_sincs, kernel kind, table) *)
Definition sinc_in_new (ratio maxrel : cnum) (env : sinc_env) (ilen inbr : Z) (chunk nch : Z) : cerr + rstate :=
  match validate_ratios_sinc ratio maxrel with
  | Some e => inl e
  | None =>
    let st := default_SincFixedIn in
    let st := set_SincFixedIn_nbr_channels st nch in
    let st := set_SincFixedIn_chunk_size st chunk in
    let st := set_SincFixedIn_max_chunk_size st chunk in
    let st := set_SincFixedIn_current_buffer_fill st (si_new_fill chunk) in
    let st := set_SincFixedIn_last_index st (si_new_last_index ilen) in
    let st := set_SincFixedIn_resample_ratio st ratio in
    let st := set_SincFixedIn_resample_ratio_original st ratio in
    let st := set_SincFixedIn_target_ratio st ratio in
    let st := set_SincFixedIn_max_relative_ratio st maxrel in
    let st := set_SincFixedIn_interpolator_len st ilen in
    let st := set_SincFixedIn_interpolator_nbr_sincs st inbr in
    inr (RSincIn env (mk_astate st (chans nch (zeros (si_new_buffer_len chunk ilen))) (chans nch true)))
  end.

Definition sinc_out_new (ratio maxrel : cnum) (env : sinc_env) (ilen inbr : Z) (chunk nch : Z) : cerr + rstate :=
  match validate_ratios_sinc ratio maxrel with
  | Some e => inl e
  | None =>
    let needed := so_new_needed_input_size chunk ilen ratio in
    let blen := so_new_buffer_channel_length ilen maxrel needed in
    let st := default_SincFixedOut in
    let st := set_SincFixedOut_nbr_channels st nch in
    let st := set_SincFixedOut_chunk_size st chunk in
    let st := set_SincFixedOut_max_chunk_size st chunk in
    let st := set_SincFixedOut_needed_input_size st needed in
    let st := set_SincFixedOut_last_index st (so_new_last_index ilen) in
    let st := set_SincFixedOut_current_buffer_fill st needed in
    let st := set_SincFixedOut_resample_ratio st ratio in
    let st := set_SincFixedOut_resample_ratio_original st ratio in
    let st := set_SincFixedOut_target_ratio st ratio in
    let st := set_SincFixedOut_max_relative_ratio st maxrel in
    let st := set_SincFixedOut_interpolator_len st ilen in
    let st := set_SincFixedOut_interpolator_nbr_sincs st inbr in
    inr (RSincOut env (mk_astate st (chans nch (zeros blen)) (chans nch true)))
  end.

Definition fft_in_new (rate_in rate_out chunk sub nch : Z) : cerr + rstate :=
  if syn_validate_rates_bad rate_in rate_out then inl (CErrInvalidSampleRate rate_in rate_out) else
  let g := xi_new_gcd rate_in rate_out in
  let minc := xi_new_min_chunk_in g rate_in in
  let wanted := xi_new_wanted_subsize chunk sub in
  let fc := xi_new_fft_chunks minc wanted in
  let fout := xi_new_fft_size_out fc g rate_out in
  let fin := xi_new_fft_size_in fc g rate_in in
  let st := default_FftFixedIn in
  let st := set_FftFixedIn_nbr_channels st nch in
  let st := set_FftFixedIn_chunk_size_in st chunk in
  let st := set_FftFixedIn_fft_size_in st fin in
  let st := set_FftFixedIn_fft_size_out st fout in
  let st := set_FftFixedIn_saved_frames st 0 in
  inr (RFftIn (mk_fstate st (chans nch (zeros (xi_new_overlap_len fout))) (chans nch (zeros (xi_new_ibuf_len chunk fin))) (chans nch true))).

Definition fft_out_new (rate_in rate_out chunk sub nch : Z) : cerr + rstate :=
  if syn_validate_rates_bad rate_in rate_out then inl (CErrInvalidSampleRate rate_in rate_out) else
  let g := xo_new_gcd rate_in rate_out in
  let minc := xo_new_min_chunk_out g rate_out in
  let wanted := xo_new_wanted_subsize chunk sub in
  let fc := xo_new_fft_chunks minc wanted in
  let fout := xo_new_fft_size_out fc g rate_out in
  let fin := xo_new_fft_size_in fc g rate_in in
  let cn := xo_new_chunks_needed chunk fout in
  let fnd := xo_new_frames_needed cn fin in
  let st := default_FftFixedOut in
  let st := set_FftFixedOut_nbr_channels st nch in
  let st := set_FftFixedOut_chunk_size_out st chunk in
  let st := set_FftFixedOut_fft_size_in st fin in
  let st := set_FftFixedOut_fft_size_out st fout in
  let st := set_FftFixedOut_saved_frames st 0 in
  let st := set_FftFixedOut_frames_needed st fnd in
  inr (RFftOut (mk_fstate st (chans nch (zeros (xo_new_overlap_len fout))) (chans nch (zeros (xo_new_obuf_len chunk fout))) (chans nch true))).

Definition fft_inout_new (rate_in rate_out chunk nch : Z) : cerr + rstate :=
  if syn_validate_rates_bad rate_in rate_out then inl (CErrInvalidSampleRate rate_in rate_out) else
  let g := xio_new_gcd rate_in rate_out in
  let minc := xio_new_min_chunk_in g rate_in in
  let fc := xio_new_fft_chunks chunk minc in
  let fout := xio_new_fft_size_out fc g rate_out in
  let fin := xio_new_fft_size_in fc g rate_in in
  let st := default_FftFixedInOut in
  let st := set_FftFixedInOut_nbr_channels st nch in
  let st := set_FftFixedInOut_chunk_size_in st fin in
  let st := set_FftFixedInOut_chunk_size_out st fout in
  let st := set_FftFixedInOut_fft_size_in st fin in
  inr (RFftInOut (mk_fstate st (chans nch (zeros (xio_new_overlap_len fout))) [] (chans nch true))).

(** * process_into_buffer *)
Definition r_pib (r : rstate) (wi wo : list (list snum)) (m : option (list bool))
  : res (rstate * (Z * Z) * list (list snum)) :=
  match r with
  | RFastIn d s => do x <- pib (fi_arch d) s wi wo m; let '(s', c, o) := x in Ok (RFastIn d s', c, o)
  | RFastOut d s => do x <- pib (fo_arch d) s wi wo m; let '(s', c, o) := x in Ok (RFastOut d s', c, o)
  | RSincIn e s => do x <- pib (si_arch e) s wi wo m; let '(s', c, o) := x in Ok (RSincIn e s', c, o)
  | RSincOut e s => do x <- pib (so_arch e) s wi wo m; let '(s', c, o) := x in Ok (RSincOut e s', c, o)
  | RFftIn s => do x <- xi_pib unit_fn s wi wo m; let '(s', c, o) := x in Ok (RFftIn s', c, o)
  | RFftOut s => do x <- xo_pib unit_fn s wi wo m; let '(s', c, o) := x in Ok (RFftOut s', c, o)
  | RFftInOut s => do x <- xio_pib unit_fn s wi wo m; let '(s', c, o) := x in Ok (RFftInOut s', c, o)
  end.

(** * Getters: (input_frames_max, input_frames_next, output_frames_max, output_frames_next, output_delay, nbr_channels) *)
Record getters := { g_in_max : Z; g_in_next : Z; g_out_max : Z; g_out_next : Z; g_delay : Z; g_nch : Z }.

Definition r_getters (r : rstate) : getters :=
  match r with
  | RFastIn _ s => let st := as_ctl s in
      {| g_in_max := fi_input_frames_max st; g_in_next := fi_input_frames_next st; g_out_max := fi_output_frames_max st;
         g_out_next := fi_output_frames_next st; g_delay := fi_output_delay st; g_nch := FastFixedIn_nbr_channels st |}
  | RFastOut _ s => let st := as_ctl s in
      {| g_in_max := fo_input_frames_max st; g_in_next := fo_input_frames_next st; g_out_max := fo_output_frames_max st;
         g_out_next := fo_output_frames_next st; g_delay := fo_output_delay st; g_nch := FastFixedOut_nbr_channels st |}
  | RSincIn _ s => let st := as_ctl s in
      {| g_in_max := si_input_frames_max st; g_in_next := si_input_frames_next st; g_out_max := si_output_frames_max st;
         g_out_next := si_calc_needed_len st; g_delay := si_output_delay st; g_nch := SincFixedIn_nbr_channels st |}
  | RSincOut _ s => let st := as_ctl s in
      {| g_in_max := so_input_frames_max st; g_in_next := so_input_frames_next st; g_out_max := so_output_frames_max st;
         g_out_next := so_output_frames_next st; g_delay := so_output_delay st; g_nch := SincFixedOut_nbr_channels st |}
  | RFftIn s => let st := fs_ctl s in
      {| g_in_max := xi_input_frames_max st; g_in_next := xi_input_frames_next st; g_out_max := xi_output_frames_max st;
         g_out_next := xi_output_frames_next st; g_delay := xi_output_delay st; g_nch := FftFixedIn_nbr_channels st |}
  | RFftOut s => let st := fs_ctl s in
      {| g_in_max := xo_input_frames_max st; g_in_next := xo_input_frames_next st; g_out_max := xo_output_frames_max st;
         g_out_next := xo_output_frames_max st; g_delay := xo_output_delay st; g_nch := FftFixedOut_nbr_channels st |}
  | RFftInOut s => let st := fs_ctl s in
      {| g_in_max := xio_input_frames_max st; g_in_next := xio_input_frames_next st; g_out_max := xio_output_frames_max st;
         g_out_next := xio_output_frames_max st; g_delay := xio_output_delay st; g_nch := FftFixedInOut_nbr_channels st |}
  end.

(** * set_resample_ratio / set_resample_ratio_relative *)
Definition upd_ctl {St} (s : astate St) (st : St) : astate St := mk_astate st (as_buf s) (as_mask s).

Definition fi_set_ratio (s : astate FastFixedIn) (r : cnum) (ramp : bool) : astate FastFixedIn * res unit :=
  let st := as_ctl s in
  if fi_set_ratio_accept st r then
    let st1 := if ramp then st else set_FastFixedIn_resample_ratio st r in
    (upd_ctl s (set_FastFixedIn_target_ratio st1 r), Ok tt)
  else (s, Err (ErrRatioOutOfBounds r (FastFixedIn_resample_ratio_original st) (FastFixedIn_max_relative_ratio st))).

Definition fo_set_ratio (s : astate FastFixedOut) (r : cnum) (ramp : bool) : astate FastFixedOut * res unit :=
  let st := as_ctl s in
  if fo_set_ratio_accept st r then
    let st1 := if ramp then st else set_FastFixedOut_resample_ratio st r in
    let st2 := set_FastFixedOut_target_ratio st1 r in
    (upd_ctl s (set_FastFixedOut_needed_input_size st2 (fo_set_ratio_needed st2)), Ok tt)
  else (s, Err (ErrRatioOutOfBounds r (FastFixedOut_resample_ratio_original st) (FastFixedOut_max_relative_ratio st))).

Definition si_set_ratio (s : astate SincFixedIn) (r : cnum) (ramp : bool) : astate SincFixedIn * res unit :=
  let st := as_ctl s in
  if si_set_ratio_accept st r then
    let st1 := if ramp then st else set_SincFixedIn_resample_ratio st r in
    (upd_ctl s (set_SincFixedIn_target_ratio st1 r), Ok tt)
  else (s, Err (ErrRatioOutOfBounds r (SincFixedIn_resample_ratio_original st) (SincFixedIn_max_relative_ratio st))).

Definition so_set_ratio (s : astate SincFixedOut) (r : cnum) (ramp : bool) : astate SincFixedOut * res unit :=
  let st := as_ctl s in
  if so_set_ratio_accept st r then
    let st1 := if ramp then st else set_SincFixedOut_resample_ratio st r in
    let st2 := set_SincFixedOut_target_ratio st1 r in
    (upd_ctl s (set_SincFixedOut_needed_input_size st2 (so_update_needed_len st2)), Ok tt)
  else (s, Err (ErrRatioOutOfBounds r (SincFixedOut_resample_ratio_original st) (SincFixedOut_max_relative_ratio st))).

Definition r_set_ratio (r : rstate) (x : cnum) (ramp : bool) : rstate * res unit :=
  match r with
  | RFastIn d s => let '(s', o) := fi_set_ratio s x ramp in (RFastIn d s', o)
  | RFastOut d s => let '(s', o) := fo_set_ratio s x ramp in (RFastOut d s', o)
  | RSincIn e s => let '(s', o) := si_set_ratio s x ramp in (RSincIn e s', o)
  | RSincOut e s => let '(s', o) := so_set_ratio s x ramp in (RSincOut e s', o)
  | _ => (r, Err ErrSyncNotAdjustable)
  end.

Definition r_set_rel (r : rstate) (x : cnum) (ramp : bool) : rstate * res unit :=
  match r with
  | RFastIn d s => let st := as_ctl s in
      let nr := fi_set_rel_new_ratio st x in
      if fi_set_rel_accept st x then
        let '(s', o) := fi_set_ratio s (fi_set_rel_clamped st (fi_set_rel_max_ratio st) (fi_set_rel_min_ratio st) nr) ramp in (RFastIn d s', o)
      else (r, Err (ErrRatioOutOfBounds nr (FastFixedIn_resample_ratio_original st) (FastFixedIn_max_relative_ratio st)))
  | RFastOut d s => let st := as_ctl s in
      let nr := fo_set_rel_new_ratio st x in
      if fo_set_rel_accept st x then
        let '(s', o) := fo_set_ratio s (fo_set_rel_clamped st (fo_set_rel_max_ratio st) (fo_set_rel_min_ratio st) nr) ramp in (RFastOut d s', o)
      else (r, Err (ErrRatioOutOfBounds nr (FastFixedOut_resample_ratio_original st) (FastFixedOut_max_relative_ratio st)))
  | RSincIn e s => let st := as_ctl s in
      let nr := si_set_rel_new_ratio st x in
      if si_set_rel_accept st x then
        let '(s', o) := si_set_ratio s (si_set_rel_clamped st (si_set_rel_max_ratio st) (si_set_rel_min_ratio st) nr) ramp in (RSincIn e s', o)
      else (r, Err (ErrRatioOutOfBounds nr (SincFixedIn_resample_ratio_original st) (SincFixedIn_max_relative_ratio st)))
  | RSincOut e s => let st := as_ctl s in
      let nr := so_set_rel_new_ratio st x in
      if so_set_rel_accept st x then
        let '(s', o) := so_set_ratio s (so_set_rel_clamped st (so_set_rel_max_ratio st) (so_set_rel_min_ratio st) nr) ramp in (RSincOut e s', o)
      else (r, Err (ErrRatioOutOfBounds nr (SincFixedOut_resample_ratio_original st) (SincFixedOut_max_relative_ratio st)))
  | _ => (r, Err ErrSyncNotAdjustable)
  end.

(** * set_chunk_size *)
Definition r_set_chunk (r : rstate) (n : Z) : rstate * res unit :=
  match r with
  | RSincIn e s => let st := as_ctl s in
      if si_set_chunk_bad st n then (r, Err (ErrInvalidChunkSize (SincFixedIn_max_chunk_size st) n))
      else (RSincIn e (upd_ctl s (set_SincFixedIn_chunk_size st n)), Ok tt)
  | RSincOut e s => let st := as_ctl s in
      if so_set_chunk_bad st n then (r, Err (ErrInvalidChunkSize (SincFixedOut_max_chunk_size st) n))
      else let st1 := set_SincFixedOut_chunk_size st n in
           (RSincOut e (upd_ctl s (set_SincFixedOut_needed_input_size st1 (so_update_needed_len st1))), Ok tt)
  | _ => (r, Err ErrChunkSizeNotAdjustable)
  end.

(** * reset (assignments in source order) *)
Definition r_reset (r : rstate) : rstate :=
  match r with
  | RFastIn d s => let st := as_ctl s in
      let st := set_FastFixedIn_last_index st (fi_reset_last_index st) in
      let st := set_FastFixedIn_resample_ratio st (fi_reset_resample_ratio st) in
      let st := set_FastFixedIn_target_ratio st (fi_reset_target_ratio st) in
      RFastIn d (mk_astate st (zero_like (as_buf s)) (map (fun _ => true) (as_mask s)))
  | RFastOut d s => let st := as_ctl s in
      let st := set_FastFixedOut_needed_input_size st (fo_reset_needed st) in
      let st := set_FastFixedOut_current_buffer_fill st (fo_reset_fill st) in
      let st := set_FastFixedOut_last_index st (fo_reset_last_index st) in
      let st := set_FastFixedOut_resample_ratio st (fo_reset_resample_ratio st) in
      let st := set_FastFixedOut_target_ratio st (fo_reset_target_ratio st) in
      RFastOut d (mk_astate st (zero_like (as_buf s)) (map (fun _ => true) (as_mask s)))
  | RSincIn e s => let st := as_ctl s in
      let st := set_SincFixedIn_last_index st (si_reset_last_index st) in
      let st := set_SincFixedIn_resample_ratio st (si_reset_resample_ratio st) in
      let st := set_SincFixedIn_target_ratio st (si_reset_target_ratio st) in
      let st := set_SincFixedIn_chunk_size st (si_reset_chunk_size st) in
      let st := set_SincFixedIn_current_buffer_fill st (si_reset_fill st) in
      RSincIn e (mk_astate st (zero_like (as_buf s)) (map (fun _ => true) (as_mask s)))
  | RSincOut e s => let st := as_ctl s in
      let st := set_SincFixedOut_resample_ratio st (so_reset_resample_ratio st) in
      let st := set_SincFixedOut_target_ratio st (so_reset_target_ratio st) in
      let st := set_SincFixedOut_last_index st (so_reset_last_index st) in
      let st := set_SincFixedOut_chunk_size st (so_reset_chunk_size st) in
      let st := set_SincFixedOut_needed_input_size st (so_reset_needed st) in
      let st := set_SincFixedOut_current_buffer_fill st (so_reset_fill st) in
      RSincOut e (mk_astate st (zero_like (as_buf s)) (map (fun _ => true) (as_mask s)))
  | RFftIn s => let st := fs_ctl s in
      let st := set_FftFixedIn_saved_frames st (xi_reset_saved_frames st) in
      RFftIn (mk_fstate st (zero_like (fs_overlaps s)) (zero_like (fs_bufs s)) (map (fun _ => true) (fs_mask s)))
  | RFftOut s => let st := fs_ctl s in
      let st := set_FftFixedOut_saved_frames st (xo_reset_saved_frames st) in
      let st := set_FftFixedOut_frames_needed st (xo_reset_frames_needed st (xo_reset_chunks_needed st)) in
      RFftOut (mk_fstate st (zero_like (fs_overlaps s)) (zero_like (fs_bufs s)) (map (fun _ => true) (fs_mask s)))
  | RFftInOut s =>
      RFftInOut (mk_fstate (fs_ctl s) (zero_like (fs_overlaps s)) (fs_bufs s) (map (fun _ => true) (fs_mask s)))
  end.

(** Observable internal state for the hooks: buffers (all of them, channel-major). *)
Definition r_buffers (r : rstate) : list (list snum) :=
  match r with
  | RFastIn _ s => as_buf s | RFastOut _ s => as_buf s | RSincIn _ s => as_buf s | RSincOut _ s => as_buf s
  | RFftIn s => fs_overlaps s ++ fs_bufs s | RFftOut s => fs_overlaps s ++ fs_bufs s | RFftInOut s => fs_overlaps s
  end.

End Resamplers.
