(** Ideal-arithmetic instance of the numeric interface: Coq's real numbers.
    The same model text, rounding erased and nothing else: casts are the
    identity, floor/ceil/trunc are the mathematical ones.                      *)

From Coq Require Import ZArith Reals List Bool.
From Flocq Require Import Core.
From Rubato.Model Require Import Num.

Open Scope R_scope.

#[global] Instance CR : CNum := {|
  cnum := R;
  c32 := R;
  cadd := Rplus;
  csub := Rminus;
  cmul := Rmult;
  cdiv := Rdiv;
  copp := Ropp;
  cfloor := fun x => IZR (Zfloor x);
  cceil := fun x => IZR (Zceil x);
  cround := fun x => IZR (ZnearestA x);
  c_of_Z := IZR;
  c_to_isize := Ztrunc;
  c_to_usize := fun x => Z.max 0 (Ztrunc x);
  cltb := Rlt_bool;
  cleb := Rle_bool;
  cmax := Rmax;
  cmin := Rmin;
  c_is_finite := fun _ => true;
  c_lit := fun _ _ n d => IZR n / IZR d;
  c_min_positive := bpow radix2 (-1022);
  to32 := fun x => x;
  of32 := fun x => x;
  add32 := Rplus;
  sub32 := Rminus;
  mul32 := Rmult;
  div32 := Rdiv;
  ceil32 := fun x => IZR (Zceil x);
  floor32 := fun x => IZR (Zfloor x);
  c32_of_Z := IZR;
  c32_to_usize := fun x => Z.max 0 (Ztrunc x);
  lit32 := fun _ _ n d => IZR n / IZR d;
  ge32 := fun a b => Rle_bool b a;
|}.

#[global] Instance SR : SNum CR := {|
  snum := R;
  sadd := Rplus;
  ssub := Rminus;
  smul := Rmult;
  sdiv := Rdiv;
  sopp := Ropp;
  sfma := fun a b c => a * b + c;
  coerce := fun x => x;
  coerce32 := fun x => x;
  s_of_Z := IZR;
  szero := 0;
  sone := 1;
|}.
