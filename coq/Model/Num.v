(** Numeric interface of the model: one model text, several arithmetics.

    [CNum]  — the control numbers of the Rust code: [f64] plus the few [f32]
              operations the code performs on sizes.
    [SNum]  — the sample type [T] (f32 or f64).

    Instances (file Floats.v / Reals.v):
      B64/B32  Flocq computable IEEE-754 floats: the bit-exact executable model.
      RR       Coq's real numbers: the same text with rounding erased.          *)

From Coq Require Import ZArith List Bool.

Class CNum : Type := {
  cnum : Type;                         (* f64 *)
  c32  : Type;                         (* f32 *)
  cadd : cnum -> cnum -> cnum;
  csub : cnum -> cnum -> cnum;
  cmul : cnum -> cnum -> cnum;
  cdiv : cnum -> cnum -> cnum;
  copp : cnum -> cnum;
  cfloor : cnum -> cnum;               (* f64::floor *)
  cceil  : cnum -> cnum;               (* f64::ceil  *)
  cround : cnum -> cnum;               (* f64::round, half away from zero *)
  c_of_Z : Z -> cnum;                  (* usize/isize as f64 *)
  c_to_isize : cnum -> Z;              (* f64 as isize: truncate, saturate, NaN -> 0 *)
  c_to_usize : cnum -> Z;              (* f64 as usize *)
  cltb : cnum -> cnum -> bool;         (* <  (false on NaN) *)
  cleb : cnum -> cnum -> bool;         (* <= (false on NaN) *)
  cmax : cnum -> cnum -> cnum;         (* f64::max *)
  cmin : cnum -> cnum -> cnum;         (* f64::min *)
  c_is_finite : cnum -> bool;
  (* literal: binary value m*2^e (what rustc stores) and the decimal num/den it was written as *)
  c_lit : Z -> Z -> Z -> Z -> cnum;
  c_min_positive : cnum;               (* f64::MIN_POSITIVE *)
  (* f32 side *)
  to32 : cnum -> c32;                  (* f64 as f32 *)
  of32 : c32 -> cnum;                  (* f32 as f64 *)
  add32 : c32 -> c32 -> c32;
  sub32 : c32 -> c32 -> c32;
  mul32 : c32 -> c32 -> c32;
  div32 : c32 -> c32 -> c32;
  ceil32 : c32 -> c32;
  floor32 : c32 -> c32;
  c32_of_Z : Z -> c32;                 (* usize as f32 *)
  c32_to_usize : c32 -> Z;             (* f32 as usize *)
  lit32 : Z -> Z -> Z -> Z -> c32;
  ge32 : c32 -> c32 -> bool;           (* >= on f32... used by make_interpolator via f64 compare; kept for completeness *)
}.

Class SNum (C : CNum) : Type := {
  snum : Type;
  sadd : snum -> snum -> snum;
  ssub : snum -> snum -> snum;
  smul : snum -> snum -> snum;
  sdiv : snum -> snum -> snum;
  sopp : snum -> snum;
  sfma : snum -> snum -> snum -> snum;   (* a*b+c, one rounding *)
  coerce : @cnum C -> snum;              (* T::coerce(f64) *)
  coerce32 : @c32 C -> snum;             (* T::coerce(f32) *)
  s_of_Z : Z -> snum;                    (* T::coerce(usize) *)
  szero : snum;
  sone : snum;
}.

Declare Scope cnum_scope.
Delimit Scope cnum_scope with C.
Infix "+" := cadd : cnum_scope.
Infix "-" := csub : cnum_scope.
Infix "*" := cmul : cnum_scope.
Infix "/" := cdiv : cnum_scope.
Notation "- x" := (copp x) : cnum_scope.

Declare Scope snum_scope.
Delimit Scope snum_scope with S.
Infix "+" := sadd : snum_scope.
Infix "-" := ssub : snum_scope.
Infix "*" := smul : snum_scope.
Infix "/" := sdiv : snum_scope.
Notation "- x" := (sopp x) : snum_scope.
