(** Bit-exact instances of the numeric interface: Flocq's computable IEEE-754
    binary64 / binary32 (single-NaN variant), round to nearest even.          *)

From Coq Require Import ZArith List Bool.
From Flocq Require Import Core BinarySingleNaN.
From Flocq Require Binary Bits.
From Rubato.Model Require Import Num.

Definition f64 := binary_float 53 1024.
Definition f32 := binary_float 24 128.

#[global] Instance prec53_gt0 : Prec_gt_0 53 := eq_refl.
#[global] Instance prec53_lt : Prec_lt_emax 53 1024 := eq_refl.
#[global] Instance prec24_gt0 : Prec_gt_0 24 := eq_refl.
#[global] Instance prec24_lt : Prec_lt_emax 24 128 := eq_refl.

Section Generic.
Context (prec emax : Z) {Hp : Prec_gt_0 prec} {Hm : Prec_lt_emax prec emax}.
Notation bf := (binary_float prec emax).

Definition b_of_Z (z : Z) : bf := binary_normalize prec emax Hp Hm mode_NE z 0 false.

Definition b_lit (m e : Z) : bf := binary_normalize prec emax Hp Hm mode_NE m e false.

(* Rust `as` cast float -> integer: truncate toward zero, saturate, NaN -> 0. *)
Definition b_to_int (lo hi : Z) (x : bf) : Z :=
  match x with
  | B754_nan => 0
  | B754_infinity s => if s then lo else hi
  | _ => let t := Btrunc x in if t <? lo then lo else if hi <? t then hi else t
  end%Z.

Definition b_max (a b : bf) : bf :=
  match a, b with
  | B754_nan, _ => b
  | _, B754_nan => a
  | _, _ => if Bltb a b then b else a
  end.
Definition b_min (a b : bf) : bf :=
  match a, b with
  | B754_nan, _ => b
  | _, B754_nan => a
  | _, _ => if Bltb b a then b else a
  end.
End Generic.

(* Conversion between formats: correctly rounded (exact when widening). *)
Definition b_conv (p1 e1 p2 e2 : Z) {Hp : Prec_gt_0 p2} {Hm : Prec_lt_emax p2 e2}
  (x : binary_float p1 e1) : binary_float p2 e2 :=
  match x with
  | B754_zero s => B754_zero s
  | B754_infinity s => B754_infinity s
  | B754_nan => B754_nan
  | B754_finite s m e _ => binary_normalize p2 e2 Hp Hm mode_NE (cond_Zopp s (Zpos m)) e s
  end.

Definition f64_to_f32 : f64 -> f32 := b_conv 53 1024 24 128.
Definition f32_to_f64 : f32 -> f64 := b_conv 24 128 53 1024.

Definition isize_min := (- 2 ^ 63)%Z.
Definition isize_max := (2 ^ 63 - 1)%Z.
Definition usize_max := (2 ^ 64 - 1)%Z.

#[global] Instance CB : CNum := {|
  cnum := f64;
  c32 := f32;
  cadd := Bplus mode_NE;
  csub := Bminus mode_NE;
  cmul := Bmult mode_NE;
  cdiv := Bdiv mode_NE;
  copp := Bopp;
  cfloor := Bnearbyint mode_DN;
  cceil := Bnearbyint mode_UP;
  cround := Bnearbyint mode_NA;
  c_of_Z := b_of_Z 53 1024;
  c_to_isize := b_to_int 53 1024 isize_min isize_max;
  c_to_usize := b_to_int 53 1024 0 usize_max;
  cltb := Bltb;
  cleb := Bleb;
  cmax := b_max 53 1024;
  cmin := b_min 53 1024;
  c_is_finite := is_finite;
  c_lit := fun m e _ _ => b_lit 53 1024 m e;
  c_min_positive := b_lit 53 1024 1 (-1022);
  to32 := f64_to_f32;
  of32 := f32_to_f64;
  add32 := Bplus mode_NE;
  sub32 := Bminus mode_NE;
  mul32 := Bmult mode_NE;
  div32 := Bdiv mode_NE;
  ceil32 := Bnearbyint mode_UP;
  floor32 := Bnearbyint mode_DN;
  c32_of_Z := b_of_Z 24 128;
  c32_to_usize := b_to_int 24 128 0 usize_max;
  lit32 := fun m e _ _ => b_lit 24 128 m e;
  ge32 := fun a b => Bleb b a;
|}.

(* Sample type f64 *)
#[global] Instance S64 : SNum CB := {|
  snum := f64;
  sadd := Bplus mode_NE;
  ssub := Bminus mode_NE;
  smul := Bmult mode_NE;
  sdiv := Bdiv mode_NE;
  sopp := Bopp;
  sfma := Bfma mode_NE;
  coerce := fun x => x;
  coerce32 := f32_to_f64;
  s_of_Z := b_of_Z 53 1024;
  szero := B754_zero false;
  sone := b_of_Z 53 1024 1;
|}.

(* Sample type f32 *)
#[global] Instance S32 : SNum CB := {|
  snum := f32;
  sadd := Bplus mode_NE;
  ssub := Bminus mode_NE;
  smul := Bmult mode_NE;
  sdiv := Bdiv mode_NE;
  sopp := Bopp;
  sfma := Bfma mode_NE;
  coerce := f64_to_f32;
  coerce32 := fun x => x;
  s_of_Z := b_of_Z 24 128;
  szero := B754_zero false;
  sone := b_of_Z 24 128 1;
|}.

(** Bit patterns (for the correspondence driver). NaNs are canonicalised. *)
Definition canon_nan64 : { x : Binary.binary_float 53 1024 | Binary.is_nan 53 1024 x = true }.
Proof. exists (Binary.B754_nan 53 1024 false (2^51)%positive eq_refl). reflexivity. Defined.
Definition canon_nan32 : { x : Binary.binary_float 24 128 | Binary.is_nan 24 128 x = true }.
Proof. exists (Binary.B754_nan 24 128 false (2^22)%positive eq_refl). reflexivity. Defined.

Definition f64_of_bits (z : Z) : f64 := Binary.B2BSN 53 1024 (Bits.b64_of_bits z).
Definition bits_of_f64 (x : f64) : Z := Bits.bits_of_b64 (Binary.BSN2B 53 1024 canon_nan64 x).
Definition f32_of_bits (z : Z) : f32 := Binary.B2BSN 24 128 (Bits.b32_of_bits z).
Definition bits_of_f32 (x : f32) : Z := Bits.bits_of_b32 (Binary.BSN2B 24 128 canon_nan32 x).
