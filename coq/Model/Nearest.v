(** interpolation.rs: get_nearest_time(s)_* — (index, subindex) pairs of the
    oversampled grid points around time t.                                     *)

From Coq Require Import ZArith List Bool.
From Rubato.Model Require Import Num.
Import ListNotations.
Local Open Scope Z_scope.

Section Nearest.
Context {C : CNum}.

Definition nt_index (t : cnum) : Z := c_to_isize (cfloor t).
(* ((t - t.floor()) * (factor as f64)).floor() as isize *)
Definition nt_sub_floor (t : cnum) (factor : Z) : Z :=
  c_to_isize (cfloor (cmul (csub t (cfloor t)) (c_of_Z factor))).
Definition nt_sub_round (t : cnum) (factor : Z) : Z :=
  c_to_isize (cround (cmul (csub t (cfloor t)) (c_of_Z factor))).

(* the wrap used by times_3 / times_4 *)
Definition nt_wrap (index subindex factor : Z) : Z * Z :=
  if subindex <? 0 then (index - 1, subindex + factor)
  else if subindex >=? factor then (index + 1, subindex - factor)
  else (index, subindex).

Definition get_nearest_times_2 (t : cnum) (factor : Z) : list (Z * Z) :=
  let index := nt_index t in
  let subindex := nt_sub_floor t factor in
  let p0 := (index, subindex) in
  let subindex1 := subindex + 1 in
  let p1 := if subindex1 >=? factor then (index + 1, subindex1 - factor) else (index, subindex1) in
  [p0; p1].

Definition get_nearest_times_3 (t : cnum) (factor : Z) : list (Z * Z) :=
  let start := nt_index t in
  let frac := nt_sub_floor t factor in
  map (fun sub => nt_wrap start (frac + sub) factor) [0; 1; 2].

Definition get_nearest_times_4 (t : cnum) (factor : Z) : list (Z * Z) :=
  let start := nt_index t in
  let frac := nt_sub_floor t factor in
  map (fun sub => nt_wrap start (frac + sub) factor) [-1; 0; 1; 2].

Definition get_nearest_time (t : cnum) (factor : Z) : Z * Z :=
  let index := nt_index t in
  let subindex := nt_sub_round t factor in
  if subindex >=? factor then (index + 1, subindex - factor) else (index, subindex).

End Nearest.
