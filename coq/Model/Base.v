(** Outcomes (Rust's failure modes as values), errors, checked slice primitives. *)

From Coq Require Import ZArith List Bool.
From Rubato.Model Require Import Num.
Import ListNotations.
Local Open Scope Z_scope.

Section Base.
Context {C : CNum}.

(** ResampleError, all variants with their fields. *)
Inductive rerr : Type :=
| ErrRatioOutOfBounds (provided original max_relative_ratio : cnum)
| ErrSyncNotAdjustable
| ErrWrongNumberOfInputChannels (expected actual : Z)
| ErrWrongNumberOfOutputChannels (expected actual : Z)
| ErrWrongNumberOfMaskChannels (expected actual : Z)
| ErrInsufficientInputBufferSize (channel expected actual : Z)
| ErrInsufficientOutputBufferSize (channel expected actual : Z)
| ErrInvalidChunkSize (max requested : Z)
| ErrChunkSizeNotAdjustable.

(** ResamplerConstructionError. *)
Inductive cerr : Type :=
| CErrInvalidSampleRate (input output : Z)
| CErrInvalidRelativeRatio (v : cnum)
| CErrInvalidRatio (v : cnum).

Inductive panic_kind : Type :=
| PSliceIndex          (* slice index / range out of bounds, copy_within out of range *)
| PCopyLen             (* copy_from_slice length mismatch *)
| PKernelIndexAssert   (* assert!((index + length) < wave.len()) *)
| PKernelSubAssert     (* assert!(subindex < nbr_sincs) *)
| POverflow            (* debug arithmetic overflow *)
| PChunkZero           (* chunks(0) *)
| PDivZero.

Inductive ub_kind : Type :=
| UBReadOOB            (* get_unchecked outside the slice *)
| UBWriteOOB.          (* get_unchecked_mut outside the slice *)

Inductive res (A : Type) : Type :=
| Ok (a : A)
| Err (e : rerr)
| Panic (p : panic_kind)
| UB (u : ub_kind)
| Diverge.
Arguments Ok {A}. Arguments Err {A}. Arguments Panic {A}. Arguments UB {A}. Arguments Diverge {A}.

Definition bind {A B} (r : res A) (f : A -> res B) : res B :=
  match r with
  | Ok a => f a
  | Err e => Err e
  | Panic p => Panic p
  | UB u => UB u
  | Diverge => Diverge
  end.

Definition is_ok {A} (r : res A) : bool := match r with Ok _ => true | _ => false end.

End Base.

Arguments Ok {C A}. Arguments Err {C A}. Arguments Panic {C A}. Arguments UB {C A}. Arguments Diverge {C A}.
Notation "'do' x <- r ; k" := (bind r (fun x => k)) (at level 200, x pattern, r at level 100, k at level 200).

(** * Lists as slices *)
Section Slices.
Context {A : Type}.

Definition zlen (l : list A) : Z := Z.of_nat (length l).

(* l[lo..hi] *)
Definition slice (l : list A) (lo hi : Z) : list A :=
  firstn (Z.to_nat (hi - lo)) (skipn (Z.to_nat lo) l).

Definition in_range (l : list A) (lo hi : Z) : bool :=
  (0 <=? lo) && (lo <=? hi) && (hi <=? zlen l).

(* overwrite l[dst .. dst+len src] with src; caller checks the range *)
Definition splice (l : list A) (dst : Z) (src : list A) : list A :=
  firstn (Z.to_nat dst) l ++ src ++ skipn (Z.to_nat dst + length src) l.

(* slice::copy_within(lo..hi, dst): None where Rust panics *)
Definition copy_within (l : list A) (lo hi dst : Z) : option (list A) :=
  if in_range l lo hi && (0 <=? dst) && (dst + (hi - lo) <=? zlen l)
  then Some (splice l dst (slice l lo hi)) else None.

Definition nth_opt (l : list A) (i : Z) : option A :=
  if (0 <=? i) && (i <? zlen l) then nth_error l (Z.to_nat i) else None.

Definition set_nth (l : list A) (i : Z) (v : A) : list A := splice l i [v].

End Slices.

(* update the c-th element of a list of channels *)
Fixpoint map_mask {A} (f : nat -> A -> A) (mask : list bool) (c : nat) (l : list A) : list A :=
  match l, mask with
  | x :: xs, m :: ms => (if m then f c x else x) :: map_mask f ms (S c) xs
  | _, _ => l
  end.

(* sequence a list of results, channel order; first failure wins *)
Fixpoint res_all {C : CNum} {A} (l : list (res A)) : res (list A) :=
  match l with
  | [] => Ok []
  | r :: rs => do x <- r; do xs <- res_all rs; Ok (x :: xs)
  end.

Definition all_true (n : Z) : list bool := repeat true (Z.to_nat n).
