(** sinc_interpolator: the dot-product kernels with their exact accumulation
    order.  Every kernel keeps eight accumulator lanes, lane l summing the
    products of elements 8j+l; they differ in fused vs. separate multiply-add
    and in the final reduction tree.                                           *)

From Coq Require Import ZArith List Bool.
From Rubato.Model Require Import Num.
Import ListNotations.

Inductive kernel_kind := KScalar | KSse32 | KSse64 | KAvx32 | KAvx64.

Section Kernels.
Context {C : CNum} {S : SNum C}.
Local Open Scope snum_scope.

Definition kernel_fused (k : kernel_kind) : bool :=
  match k with KAvx32 | KAvx64 => true | _ => false end.

Definition mac (fused : bool) (acc w s : snum) : snum :=
  if fused then sfma w s acc else acc + w * s.

(* one block of 8: lane-wise multiply-accumulate *)
Fixpoint mac_lanes (fused : bool) (acc w s : list snum) : list snum :=
  match acc, w, s with
  | a :: acc', x :: w', y :: s' => mac fused a x y :: mac_lanes fused acc' w' s'
  | _, _, _ => acc
  end.

(* all blocks of 8 (len/8 of them; a trailing partial block is ignored, as in the code) *)
Fixpoint lanes_loop (fused : bool) (nblocks : nat) (acc w s : list snum) : list snum :=
  match nblocks with
  | O => acc
  | Datatypes.S n => lanes_loop fused n (mac_lanes fused acc (firstn 8 w) (firstn 8 s)) (skipn 8 w) (skipn 8 s)
  end.

Definition lane (l : list snum) (i : nat) : snum := nth i l szero.

Definition reduce (k : kernel_kind) (a : list snum) : snum :=
  let a0 := lane a 0 in let a1 := lane a 1 in let a2 := lane a 2 in let a3 := lane a 3 in
  let a4 := lane a 4 in let a5 := lane a 5 in let a6 := lane a 6 in let a7 := lane a 7 in
  match k with
  | KScalar => a0 + a1 + a2 + a3 + a4 + a5 + a6 + a7
  | KSse32 => ((a0 + a4) + (a1 + a5)) + ((a2 + a6) + (a3 + a7))
  | KAvx32 => ((a4 + a0) + (a5 + a1)) + ((a6 + a2) + (a7 + a3))
  | KSse64 => ((a0 + a2) + (a1 + a3)) + ((a4 + a6) + (a5 + a7))
  | KAvx64 => ((a2 + a6) + (a0 + a4)) + ((a3 + a7) + (a1 + a5))
  end.

(* Σ wave[i]*sinc[i] for i < len, wave and sinc of length len (a multiple of 8) *)
Definition kernel (k : kernel_kind) (wave sinc : list snum) : snum :=
  reduce k (lanes_loop (kernel_fused k) (Nat.div (length wave) 8) (repeat szero 8) wave sinc).

End Kernels.
