(** The four asynchronous resamplers (asynchro_fast.rs, asynchro_sinc.rs):
    hand-written control skeleton over the *generated* formulas of Gen/.

    One generic engine ([pib]) is instantiated four times through an [arch]
    record that collects the generated pieces of each type.                    *)

From Coq Require Import ZArith List Bool.
From Rubato.Model Require Import Num Base Validate Nearest Kernels.
From Rubato.Gen Require Import FastGen SincGen.
Import ListNotations.
Local Open Scope Z_scope.

Inductive degree := Septic | Quintic | Cubic | Linear | NearestDeg.
Inductive sinc_type := SCubic | SQuadratic | SLinear | SNearest.

Section Async.
Context {C : CNum} {S : SNum C}.

(** What the engine needs to know about one resampler type; [St] is the
    generated record of its scalar fields. *)
Record arch (St : Type) : Type := {
  a_mask_bad : St -> Z -> bool;
  a_val_channels : St -> Z;
  a_val_min_in : St -> Z;
  a_val_min_out : St -> Z;
  (* history shift: copy_within(lo..hi, dst) on every channel, evaluated before [a_pre] *)
  a_shift_lo : St -> Z;  a_shift_hi : St -> Z;  a_shift_dst : St -> Z;
  a_pre : St -> St;                       (* current_buffer_fill := ... (identity for FastFixedIn) *)
  a_fill_lo : St -> Z;  a_fill_hi : St -> Z;  a_fill_src_hi : St -> Z;
  a_t0 : St -> cnum;  a_tend : St -> cnum;
  a_inc : St -> cnum -> cnum -> cnum;     (* t_ratio_end, t_ratio *)
  a_idx0 : St -> cnum;
  (* loop: fixed-in  = Some (end_idx, cond end_idx idx); fixed-out = None with a_bound *)
  a_fixed_in : bool;
  a_end_idx : St -> cnum -> Z;            (* t_ratio_end *)
  a_cond : St -> Z -> cnum -> bool;       (* end_idx, idx *)
  a_bound : St -> Z;
  a_tstep : St -> cnum -> cnum -> cnum;   (* t_ratio, increment *)
  a_istep : St -> cnum -> cnum -> cnum;   (* idx, t_ratio *)
  (* one output sample of one channel at position idx; checked reads *)
  a_sample : St -> list snum -> cnum -> res snum;
  a_write_checked : bool;                 (* true: bounds-checked write (panic); false: get_unchecked_mut (UB) *)
  a_finish : St -> cnum -> St;            (* state update after the loop, given the final idx *)
  a_ret : St -> St -> Z -> Z * Z;         (* state before finish, after finish, n *)
}.
Arguments a_mask_bad {St}. Arguments a_val_channels {St}. Arguments a_val_min_in {St}.
Arguments a_val_min_out {St}. Arguments a_shift_lo {St}. Arguments a_shift_hi {St}.
Arguments a_shift_dst {St}. Arguments a_pre {St}. Arguments a_fill_lo {St}. Arguments a_fill_hi {St}.
Arguments a_fill_src_hi {St}. Arguments a_t0 {St}. Arguments a_tend {St}. Arguments a_inc {St}.
Arguments a_idx0 {St}. Arguments a_fixed_in {St}. Arguments a_end_idx {St}. Arguments a_cond {St}.
Arguments a_bound {St}. Arguments a_tstep {St}. Arguments a_istep {St}. Arguments a_sample {St}.
Arguments a_write_checked {St}. Arguments a_finish {St}. Arguments a_ret {St}.

(** Full state: generated scalars + buffers + the stored mask. *)
Record astate (St : Type) : Type := mk_astate {
  as_ctl : St;
  as_buf : list (list snum);
  as_mask : list bool;
}.
Arguments mk_astate {St}. Arguments as_ctl {St}. Arguments as_buf {St}. Arguments as_mask {St}.

(** The stepping loops: the positions at which output frames are evaluated. *)
Fixpoint positions_in (tstep istep : cnum -> cnum -> cnum) (cond : cnum -> bool)
         (fuel : nat) (t inc idx : cnum) : option (list cnum * cnum) :=
  if cond idx then
    match fuel with
    | O => None
    | Datatypes.S f =>
        let t' := tstep t inc in
        let idx' := istep idx t' in
        match positions_in tstep istep cond f t' inc idx' with
        | Some (ps, last) => Some (idx' :: ps, last)
        | None => None
        end
    end
  else Some ([], idx).

Fixpoint positions_out (tstep istep : cnum -> cnum -> cnum)
         (n : nat) (t inc idx : cnum) : list cnum * cnum :=
  match n with
  | O => ([], idx)
  | Datatypes.S m =>
      let t' := tstep t inc in
      let idx' := istep idx t' in
      let '(ps, last) := positions_out tstep istep m t' inc idx' in
      (idx' :: ps, last)
  end.

(* samples of one channel at all positions; the first failing read wins *)
Fixpoint samples_at (sample : cnum -> res snum) (ps : list cnum) : res (list snum) :=
  match ps with
  | [] => Ok []
  | p :: ps' => do v <- sample p; do vs <- samples_at sample ps'; Ok (v :: vs)
  end.

Definition write_prefix (out vals : list snum) : list snum := vals ++ skipn (length vals) out.

(* per-channel work after validation *)
Definition fill_channel {St} (A : arch St) (st : St) (buf wave : list snum) : res (list snum) :=
  let lo := a_fill_lo A st in let hi := a_fill_hi A st in let sh := a_fill_src_hi A st in
  if negb (in_range buf lo hi) then Panic PSliceIndex
  else if negb (in_range wave 0 sh) then Panic PSliceIndex
  else if negb (hi - lo =? sh) then Panic PCopyLen
  else Ok (splice buf lo (slice wave 0 sh)).

Fixpoint fill_all {St} (A : arch St) (st : St) (bufs : list (list snum)) (waves : list (list snum))
         (mask : list bool) : res (list (list snum)) :=
  match bufs, mask with
  | b :: bs, m :: ms =>
      do b' <- (if m then match waves with w :: _ => fill_channel A st b w | [] => Panic PSliceIndex end else Ok b);
      do bs' <- fill_all A st bs (tl waves) ms;
      Ok (b' :: bs')
  | _, _ => Ok bufs
  end.

Fixpoint shift_all (bufs : list (list snum)) (lo hi dst : Z) : res (list (list snum)) :=
  match bufs with
  | [] => Ok []
  | b :: bs =>
      match copy_within b lo hi dst with
      | None => Panic PSliceIndex
      | Some b' => do bs' <- shift_all bs lo hi dst; Ok (b' :: bs')
      end
  end.

(* Interleaving of channels inside the frame loop matters only for which failure
   is reported first; every failure is fatal, so the model works channel by
   channel and reports the failure of the earliest frame. *)
Fixpoint first_fail_len (sample : cnum -> res snum) (ps : list cnum) : nat :=
  match ps with
  | [] => O
  | p :: ps' => match sample p with Ok _ => Datatypes.S (first_fail_len sample ps') | _ => O end
  end.

Fixpoint outputs_all {St} (A : arch St) (st : St) (bufs outs : list (list snum)) (mask : list bool)
         (ps : list cnum) : res (list (list snum)) :=
  match bufs, outs, mask with
  | b :: bs, o :: os, m :: ms =>
      do o' <- (if m then
                  do vals <- samples_at (a_sample A st b) ps;
                  if (length vals <=? length o)%nat then Ok (write_prefix o vals)
                  else if a_write_checked A then Panic PSliceIndex else UB UBWriteOOB
                else Ok o);
      do os' <- outputs_all A st bs os ms ps;
      Ok (o' :: os')
  | _, _, _ => Ok outs
  end.

Definition min_active_out (outs : list (list snum)) (mask : list bool) : option Z :=
  fold_left (fun acc om => match om with
                           | (o, true) => match acc with None => Some (zlen o) | Some a => Some (Z.min a (zlen o)) end
                           | _ => acc end) (combine outs mask) None.

(** process_into_buffer *)
Definition pib {St} (A : arch St) (s : astate St) (wave_in wave_out : list (list snum))
           (mask_opt : option (list bool)) : res (astate St * (Z * Z) * list (list snum)) :=
  let st := as_ctl s in
  do mask <- match mask_opt with
             | Some m => if a_mask_bad A st (zlen m) then Err (ErrWrongNumberOfMaskChannels (a_val_channels A st) (zlen m)) else Ok m
             | None => Ok (map (fun _ => true) (as_mask s))
             end;
  do _ <- validate_buffers (map zlen wave_in) (map zlen wave_out) mask
                           (a_val_channels A st) (a_val_min_in A st) (a_val_min_out A st);
  do bufs1 <- shift_all (as_buf s) (a_shift_lo A st) (a_shift_hi A st) (a_shift_dst A st);
  let st1 := a_pre A st in
  do bufs2 <- fill_all A st1 bufs1 wave_in mask;
  let t0 := a_t0 A st1 in
  let tend := a_tend A st1 in
  let inc := a_inc A st1 tend t0 in
  let idx0 := a_idx0 A st1 in
  do ps_last <-
     (if a_fixed_in A then
        let end_idx := a_end_idx A st1 tend in
        let fuel := match min_active_out wave_out mask with
                    | Some cap => Z.to_nat (cap + 2)
                    | None => Z.to_nat (a_val_min_out A st + 65536)
                    end in
        match positions_in (a_tstep A st1) (a_istep A st1) (a_cond A st1 end_idx) fuel t0 inc idx0 with
        | Some r => Ok r
        | None => match min_active_out wave_out mask with
                  | Some _ => if a_write_checked A then Panic PSliceIndex else UB UBWriteOOB
                  | None => Diverge
                  end
        end
      else Ok (positions_out (a_tstep A st1) (a_istep A st1) (Z.to_nat (a_bound A st1)) t0 inc idx0));
  let '(ps, last) := ps_last in
  do outs <- outputs_all A st1 bufs2 wave_out mask ps;
  let st2 := a_finish A st1 last in
  Ok (mk_astate st2 bufs2 mask, a_ret A st1 st2 (Z.of_nat (length ps)), outs).

(** * Reads *)

(* polynomial resamplers: get_unchecked(lo..hi) then the interpolator *)
Definition fast_read (buf : list snum) (lo hi : Z) : res (list snum) :=
  if in_range buf lo hi then Ok (slice buf lo hi) else UB UBReadOOB.

(* `x as usize` for an isize that may be negative: wraps to >= 2^63, out of any slice *)
Definition isize_as_usize (x : Z) : Z := if x <? 0 then x + 2 ^ 64 else x.

Definition fast_point (buf : list snum) (i : Z) : res snum :=
  match nth_opt buf i with Some v => Ok v | None => UB UBReadOOB end.

(* sinc resamplers: SincInterpolator::get_sinc_interpolated with its asserts *)
Definition sinc_point (k : kernel_kind) (sincs : list (list snum)) (len nbr : Z)
           (buf : list snum) (index subindex : Z) : res snum :=
  let index := isize_as_usize index in
  let subindex := isize_as_usize subindex in
  if negb (index + len <? zlen buf) then Panic PKernelIndexAssert
  else if negb (subindex <? nbr) then Panic PKernelSubAssert
  else Ok (kernel k (slice buf index (index + len)) (nth (Z.to_nat subindex) sincs [])).

Fixpoint sinc_points (k : kernel_kind) (sincs : list (list snum)) (len nbr : Z) (buf : list snum)
         (kidx : Z -> Z) (pts : list (Z * Z)) : res (list snum) :=
  match pts with
  | [] => Ok []
  | (i, sub) :: r =>
      do v <- sinc_point k sincs len nbr buf (kidx i) sub;
      do vs <- sinc_points k sincs len nbr buf kidx r;
      Ok (v :: vs)
  end.

(** * FastFixedIn *)

Record fast_arm : Type := {
  fa_nearest : bool;
  fa_idx_floor : cnum -> cnum;
  fa_start_idx : cnum -> Z;               (* argument: idx_floor (idx for Nearest) *)
  fa_frac : cnum -> cnum -> cnum;
  fa_lo : Z -> Z;  fa_hi : Z -> Z;        (* argument: start_idx *)
  fa_interp : snum -> list snum -> snum;
}.

Definition fast_sample (arm : fast_arm) (buf : list snum) (idx : cnum) : res snum :=
  if fa_nearest arm then
    let start_idx := fa_start_idx arm idx in
    fast_point buf (isize_as_usize (fa_lo arm start_idx))
  else
    let idx_floor := fa_idx_floor arm idx in
    let start_idx := fa_start_idx arm idx_floor in
    let frac := fa_frac arm idx idx_floor in
    do w <- fast_read buf (isize_as_usize (fa_lo arm start_idx)) (isize_as_usize (fa_hi arm start_idx));
    Ok (fa_interp arm (coerce frac) w).

Definition fi_arm (self : FastFixedIn) (d : degree) : fast_arm :=
  match d with
  | Septic => {| fa_nearest := false; fa_idx_floor := fi_septic_idx_floor self; fa_start_idx := fi_septic_start_idx self;
                 fa_frac := fi_septic_frac self; fa_lo := fi_septic_win_lo self; fa_hi := fi_septic_win_hi self;
                 fa_interp := fast_interp_septic |}
  | Quintic => {| fa_nearest := false; fa_idx_floor := fi_quintic_idx_floor self; fa_start_idx := fi_quintic_start_idx self;
                 fa_frac := fi_quintic_frac self; fa_lo := fi_quintic_win_lo self; fa_hi := fi_quintic_win_hi self;
                 fa_interp := fast_interp_quintic |}
  | Cubic => {| fa_nearest := false; fa_idx_floor := fi_cubic_idx_floor self; fa_start_idx := fi_cubic_start_idx self;
                 fa_frac := fi_cubic_frac self; fa_lo := fi_cubic_win_lo self; fa_hi := fi_cubic_win_hi self;
                 fa_interp := fast_interp_cubic |}
  | Linear => {| fa_nearest := false; fa_idx_floor := fi_linear_idx_floor self; fa_start_idx := fi_linear_start_idx self;
                 fa_frac := fi_linear_frac self; fa_lo := fi_linear_win_lo self; fa_hi := fi_linear_win_hi self;
                 fa_interp := fast_interp_lin |}
  | NearestDeg => {| fa_nearest := true; fa_idx_floor := fun x => x; fa_start_idx := fi_nearest_start_idx self;
                 fa_frac := fun x _ => x; fa_lo := fi_nearest_point self; fa_hi := fi_nearest_point self;
                 fa_interp := fun x _ => x |}
  end.

Definition fi_pick {A} (d : degree) (a b c e f : A) : A :=
  match d with Septic => a | Quintic => b | Cubic => c | Linear => e | NearestDeg => f end.

Definition fi_arch (d : degree) : arch FastFixedIn := {|
  a_mask_bad := fi_mask_bad;
  a_val_channels := fi_val_channels;
  a_val_min_in := fi_val_min_in;
  a_val_min_out := fun st => fi_val_min_out st (fi_needed_len st);
  a_shift_lo := fi_shift_lo; a_shift_hi := fi_shift_hi; a_shift_dst := fi_shift_dst;
  a_pre := fun st => st;
  a_fill_lo := fi_fill_lo; a_fill_hi := fi_fill_hi; a_fill_src_hi := fi_fill_src_hi;
  a_t0 := fi_t_ratio; a_tend := fi_t_ratio_end;
  a_inc := fun st tend t0 => fi_t_ratio_increment st (fi_approximate_nbr_frames st) t0 tend;
  a_idx0 := fi_idx0;
  a_fixed_in := true;
  a_end_idx := fi_end_idx;
  a_cond := fun st e i => fi_pick d fi_septic_loop_cond fi_quintic_loop_cond fi_cubic_loop_cond
                                 fi_linear_loop_cond fi_nearest_loop_cond st e i;
  a_bound := fun _ => 0;
  a_tstep := fun st t inc => fi_pick d fi_septic_t_ratio_step fi_quintic_t_ratio_step fi_cubic_t_ratio_step
                                    fi_linear_t_ratio_step fi_nearest_t_ratio_step st t inc;
  a_istep := fun st i t => fi_pick d fi_septic_idx_step fi_quintic_idx_step fi_cubic_idx_step
                                  fi_linear_idx_step fi_nearest_idx_step st i t;
  a_sample := fun st => fast_sample (fi_arm st d);
  a_write_checked := false;
  a_finish := fun st idx =>
     let st1 := set_FastFixedIn_last_index st (fi_last_index_next st idx) in
     set_FastFixedIn_resample_ratio st1 (fi_resample_ratio_next st1);
  a_ret := fun st1 st2 n => (fi_ret_in st2, fi_ret_out st2 n);
|}.

(** * FastFixedOut *)

Definition fo_arm (self : FastFixedOut) (d : degree) : fast_arm :=
  match d with
  | Septic => {| fa_nearest := false; fa_idx_floor := fo_septic_idx_floor self; fa_start_idx := fo_septic_start_idx self;
                 fa_frac := fo_septic_frac self; fa_lo := fo_septic_win_lo self; fa_hi := fo_septic_win_hi self;
                 fa_interp := fast_interp_septic |}
  | Quintic => {| fa_nearest := false; fa_idx_floor := fo_quintic_idx_floor self; fa_start_idx := fo_quintic_start_idx self;
                 fa_frac := fo_quintic_frac self; fa_lo := fo_quintic_win_lo self; fa_hi := fo_quintic_win_hi self;
                 fa_interp := fast_interp_quintic |}
  | Cubic => {| fa_nearest := false; fa_idx_floor := fo_cubic_idx_floor self; fa_start_idx := fo_cubic_start_idx self;
                 fa_frac := fo_cubic_frac self; fa_lo := fo_cubic_win_lo self; fa_hi := fo_cubic_win_hi self;
                 fa_interp := fast_interp_cubic |}
  | Linear => {| fa_nearest := false; fa_idx_floor := fo_linear_idx_floor self; fa_start_idx := fo_linear_start_idx self;
                 fa_frac := fo_linear_frac self; fa_lo := fo_linear_win_lo self; fa_hi := fo_linear_win_hi self;
                 fa_interp := fast_interp_lin |}
  | NearestDeg => {| fa_nearest := true; fa_idx_floor := fun x => x; fa_start_idx := fo_nearest_start_idx self;
                 fa_frac := fun x _ => x; fa_lo := fo_nearest_point self; fa_hi := fo_nearest_point self;
                 fa_interp := fun x _ => x |}
  end.

Definition fo_arch (d : degree) : arch FastFixedOut := {|
  a_mask_bad := fo_mask_bad;
  a_val_channels := fo_val_channels;
  a_val_min_in := fo_val_min_in;
  a_val_min_out := fo_val_min_out;
  a_shift_lo := fo_shift_lo; a_shift_hi := fo_shift_hi; a_shift_dst := fo_shift_dst;
  a_pre := fun st => set_FastFixedOut_current_buffer_fill st (fo_fill_next st);
  a_fill_lo := fo_fill_lo; a_fill_hi := fo_fill_hi; a_fill_src_hi := fo_fill_src_hi;
  a_t0 := fo_t_ratio; a_tend := fo_t_ratio_end;
  a_inc := fun st tend t0 => fo_t_ratio_increment st t0 tend;
  a_idx0 := fo_idx0;
  a_fixed_in := false;
  a_end_idx := fun _ _ => 0;
  a_cond := fun _ _ _ => false;
  a_bound := fun st => fi_pick d fo_septic_loop_bound fo_quintic_loop_bound fo_cubic_loop_bound
                                  fo_linear_loop_bound fo_nearest_loop_bound st;
  a_tstep := fun st t inc => fi_pick d fo_septic_t_ratio_step fo_quintic_t_ratio_step fo_cubic_t_ratio_step
                                    fo_linear_t_ratio_step fo_nearest_t_ratio_step st t inc;
  a_istep := fun st i t => fi_pick d fo_septic_idx_step fo_quintic_idx_step fo_cubic_idx_step
                                  fo_linear_idx_step fo_nearest_idx_step st i t;
  a_sample := fun st => fast_sample (fo_arm st d);
  a_write_checked := false;
  a_finish := fun st idx =>
     let st1 := set_FastFixedOut_last_index st (fo_last_index_next st idx) in
     let st2 := set_FastFixedOut_resample_ratio st1 (fo_resample_ratio_next st1) in
     set_FastFixedOut_needed_input_size st2 (fo_needed_next st2);
  a_ret := fun st1 st2 n => (fo_ret_in st2 (fo_input_frames_used st1), fo_ret_out st2);
|}.

(** * SincFixedIn / SincFixedOut *)

Record sinc_env : Type := {
  se_kind : kernel_kind;
  se_sincs : list (list snum);       (* nbr_sincs rows of sinc_len taps: data, taken from the implementation *)
  se_type : sinc_type;
}.

Definition sinc_pick {A} (t : sinc_type) (a b c d : A) : A :=
  match t with SCubic => a | SQuadratic => b | SLinear => c | SNearest => d end.

Definition sinc_sample (env : sinc_env) (len nbr : Z) (kidx : Z -> Z) (frac : cnum -> cnum)
           (buf : list snum) (idx : cnum) : res snum :=
  let pts := sinc_points (se_kind env) (se_sincs env) len nbr buf kidx in
  match se_type env with
  | SCubic => do p <- pts (get_nearest_times_4 idx nbr); Ok (sinc_interp_cubic (coerce (frac idx)) p)
  | SQuadratic => do p <- pts (get_nearest_times_3 idx nbr); Ok (sinc_interp_quad (coerce (frac idx)) p)
  | SLinear => do p <- pts (get_nearest_times_2 idx nbr); Ok (sinc_interp_lin (coerce (frac idx)) p)
  | SNearest => do p <- pts [get_nearest_time idx nbr]; Ok (nth 0 p szero)
  end.

Definition si_arch (env : sinc_env) : arch SincFixedIn :=
  let t := se_type env in {|
  a_mask_bad := si_mask_bad;
  a_val_channels := si_val_channels;
  a_val_min_in := si_val_min_in;
  a_val_min_out := fun st => si_val_min_out st (si_calc_needed_len st);
  a_shift_lo := fun st => si_shift_lo st;
  a_shift_hi := fun st => si_shift_hi st (si_sinc_len st);
  a_shift_dst := si_shift_dst;
  a_pre := fun st => set_SincFixedIn_current_buffer_fill st (si_fill_next st);
  a_fill_lo := fun st => si_fill_lo st (si_sinc_len st);
  a_fill_hi := fun st => si_fill_hi st (si_sinc_len st);
  a_fill_src_hi := si_fill_src_hi;
  a_t0 := si_t_ratio; a_tend := si_t_ratio_end;
  a_inc := fun st tend t0 => si_t_ratio_increment st (si_approximate_nbr_frames st) t0 tend;
  a_idx0 := si_idx0;
  a_fixed_in := true;
  a_end_idx := fun st tend => si_end_idx st (si_sinc_len st) tend;
  a_cond := fun st e i => sinc_pick t si_cubic_loop_cond si_quadratic_loop_cond si_linear_loop_cond si_nearest_loop_cond st e i;
  a_bound := fun _ => 0;
  a_tstep := fun st x inc => sinc_pick t si_cubic_t_ratio_step si_quadratic_t_ratio_step si_linear_t_ratio_step si_nearest_t_ratio_step st x inc;
  a_istep := fun st i x => sinc_pick t si_cubic_idx_step si_quadratic_idx_step si_linear_idx_step si_nearest_idx_step st i x;
  a_sample := fun st =>
     let len := si_sinc_len st in let nbr := si_oversampling_factor st in
     sinc_sample env len nbr
       (fun n0 => sinc_pick t si_cubic_kernel_index si_quadratic_kernel_index si_linear_kernel_index si_nearest_kernel_index st n0 len)
       (fun idx => sinc_pick t si_cubic_frac si_quadratic_frac si_linear_frac (fun _ i _ => i) st idx nbr);
  a_write_checked := true;
  a_finish := fun st idx =>
     let st1 := set_SincFixedIn_last_index st (si_last_index_next st idx) in
     set_SincFixedIn_resample_ratio st1 (si_resample_ratio_next st1);
  a_ret := fun st1 st2 n => (si_ret_in st2, si_ret_out st2 n);
|}.

Definition so_arch (env : sinc_env) : arch SincFixedOut :=
  let t := se_type env in {|
  a_mask_bad := so_mask_bad;
  a_val_channels := so_val_channels;
  a_val_min_in := so_val_min_in;
  a_val_min_out := so_val_min_out;
  a_shift_lo := fun st => so_shift_lo st;
  a_shift_hi := fun st => so_shift_hi st (so_sinc_len st);
  a_shift_dst := so_shift_dst;
  a_pre := fun st => set_SincFixedOut_current_buffer_fill st (so_fill_next st);
  a_fill_lo := fun st => so_fill_lo st (so_sinc_len st);
  a_fill_hi := fun st => so_fill_hi st (so_sinc_len st);
  a_fill_src_hi := so_fill_src_hi;
  a_t0 := so_t_ratio; a_tend := so_t_ratio_end;
  a_inc := fun st tend t0 => so_t_ratio_increment st t0 tend;
  a_idx0 := so_idx0;
  a_fixed_in := false;
  a_end_idx := fun _ _ => 0;
  a_cond := fun _ _ _ => false;
  a_bound := fun st => sinc_pick t so_cubic_loop_bound so_quadratic_loop_bound so_linear_loop_bound so_nearest_loop_bound st;
  a_tstep := fun st x inc => sinc_pick t so_cubic_t_ratio_step so_quadratic_t_ratio_step so_linear_t_ratio_step so_nearest_t_ratio_step st x inc;
  a_istep := fun st i x => sinc_pick t so_cubic_idx_step so_quadratic_idx_step so_linear_idx_step so_nearest_idx_step st i x;
  a_sample := fun st =>
     let len := so_sinc_len st in let nbr := so_oversampling_factor st in
     sinc_sample env len nbr
       (fun n0 => sinc_pick t so_cubic_kernel_index so_quadratic_kernel_index so_linear_kernel_index so_nearest_kernel_index st n0 len)
       (fun idx => sinc_pick t so_cubic_frac so_quadratic_frac so_linear_frac (fun _ i _ => i) st idx nbr);
  a_write_checked := true;
  a_finish := fun st idx =>
     let st1 := set_SincFixedOut_last_index st (so_last_index_next st idx) in
     let st2 := set_SincFixedOut_resample_ratio st1 (so_resample_ratio_next st1) in
     set_SincFixedOut_needed_input_size st2 (so_update_needed_len st2);
  a_ret := fun st1 st2 n => (so_ret_in st2 (so_input_frames_used st1), so_ret_out st2);
|}.

End Async.

Arguments a_mask_bad {C S St}. Arguments a_val_channels {C S St}. Arguments a_val_min_in {C S St}.
Arguments a_val_min_out {C S St}. Arguments a_shift_lo {C S St}. Arguments a_shift_hi {C S St}.
Arguments a_shift_dst {C S St}. Arguments a_pre {C S St}. Arguments a_fill_lo {C S St}. Arguments a_fill_hi {C S St}.
Arguments a_fill_src_hi {C S St}. Arguments a_t0 {C S St}. Arguments a_tend {C S St}. Arguments a_inc {C S St}.
Arguments a_idx0 {C S St}. Arguments a_fixed_in {C S St}. Arguments a_end_idx {C S St}. Arguments a_cond {C S St}.
Arguments a_bound {C S St}. Arguments a_tstep {C S St}. Arguments a_istep {C S St}. Arguments a_sample {C S St}.
Arguments a_write_checked {C S St}. Arguments a_finish {C S St}. Arguments a_ret {C S St}.
Arguments mk_astate {C S St}. Arguments as_ctl {C S St}. Arguments as_buf {C S St}. Arguments as_mask {C S St}.
Arguments pib {C S St}.
