(** synchro.rs: FftFixedIn / FftFixedOut / FftFixedInOut.

    The spectral core of FftResampler::resample_unit (zero-pad, forward FFT,
    multiply by the filter spectrum, truncate/extend, inverse FFT) is an oracle
    [unit_fn]: input block (fft_size_in samples) |-> the full inverse transform
    (2*fft_size_out samples).  Everything around it — chunking, overlap-add,
    parked frames, block bookkeeping — is modelled.                            *)

From Coq Require Import ZArith List Bool.
From Rubato.Model Require Import Num Base Validate.
From Rubato.Gen Require Import SynchroGen.
Import ListNotations.
Local Open Scope Z_scope.

Section Fft.
Context {C : CNum} {S : SNum C}.
Variable unit_fn : list snum -> list snum.

Fixpoint add_lists (a b : list snum) : list snum :=
  match a, b with
  | x :: a', y :: b' => sadd x y :: add_lists a' b'
  | _, _ => []
  end.

(** FftResampler::resample_unit(wave_in, wave_out, overlap): new wave_out, new overlap *)
Definition resample_unit (fft_in fft_out : Z) (wave_in wave_out overlap : list snum)
  : res (list snum * list snum) :=
  if negb (zlen wave_in =? fft_in) then Panic PCopyLen
  else
    let ob := unit_fn wave_in in
    let k := Z.min (zlen wave_out) fft_out in
    if negb ((k <=? zlen overlap) && (k <=? zlen ob)) then Panic PSliceIndex
    else if negb (fft_out <=? zlen ob) then Panic PSliceIndex
    else if negb (zlen ob - fft_out =? zlen overlap) then Panic PCopyLen
    else Ok (add_lists (slice ob 0 k) (slice overlap 0 k) ++ skipn (Z.to_nat k) wave_out,
             skipn (Z.to_nat fft_out) ob).

(* l.chunks(n): consecutive blocks of n, the last one possibly shorter *)
Fixpoint chunks_aux {A} (fuel : nat) (n : nat) (l : list A) : list (list A) :=
  match fuel with
  | O => []
  | Datatypes.S f => match l with [] => [] | _ => firstn n l :: chunks_aux f n (skipn n l) end
  end.
Definition chunks {A} (n : Z) (l : list A) : list (list A) := chunks_aux (length l) (Z.to_nat n) l.

(* zip input blocks with output blocks, threading the overlap *)
Fixpoint run_units (fft_in fft_out : Z) (ins outs : list (list snum)) (overlap : list snum)
  : res (list (list snum) * list snum) :=
  match ins, outs with
  | i :: ins', o :: outs' =>
      do r <- resample_unit fft_in fft_out i o overlap;
      let '(o', ov') := r in
      do r2 <- run_units fft_in fft_out ins' outs' ov';
      let '(os', ov'') := r2 in
      Ok (o' :: os', ov'')
  | _, outs => Ok (outs, overlap)
  end.

Record fstate (St : Type) : Type := mk_fstate {
  fs_ctl : St;
  fs_overlaps : list (list snum);
  fs_bufs : list (list snum);     (* input_buffers / output_buffers; unused for InOut *)
  fs_mask : list bool;
}.
Arguments mk_fstate {St}. Arguments fs_ctl {St}. Arguments fs_overlaps {St}.
Arguments fs_bufs {St}. Arguments fs_mask {St}.

Definition prologue (bad : Z -> bool) (channels : Z) (stored : list bool) (m : option (list bool)) : res (list bool) :=
  match m with
  | Some mk => if bad (zlen mk) then Err (ErrWrongNumberOfMaskChannels channels (zlen mk)) else Ok mk
  | None => Ok (map (fun _ => true) stored)
  end.

(* apply a per-channel step to the active channels, in channel order *)
Fixpoint per_channel {X} (f : X -> res X) (xs : list X) (mask : list bool) : res (list X) :=
  match xs, mask with
  | x :: xs', m :: ms =>
      do x' <- (if m then f x else Ok x);
      do r <- per_channel f xs' ms;
      Ok (x' :: r)
  | _, _ => Ok xs
  end.

Fixpoint zip3 {A B D} (a : list A) (b : list B) (d : list D) : list (A * B * D) :=
  match a, b, d with
  | x :: a', y :: b', z :: d' => (x, y, z) :: zip3 a' b' d'
  | _, _, _ => []
  end.

(** * FftFixedInOut *)
Definition xio_pib (s : fstate FftFixedInOut) (wave_in wave_out : list (list snum))
           (mask_opt : option (list bool)) : res (fstate FftFixedInOut * (Z * Z) * list (list snum)) :=
  let st := fs_ctl s in
  do mask <- prologue (xio_mask_bad st) (xio_val_channels st) (fs_mask s) mask_opt;
  do _ <- validate_buffers (map zlen wave_in) (map zlen wave_out) mask
                           (xio_val_channels st) (xio_val_min_in st) (xio_val_min_out st);
  let fin := FftFixedInOut_fft_size_in st in
  let fout := FftFixedInOut_chunk_size_out st in
  do r <- per_channel (fun '(wi, wo, ov) =>
            if negb (in_range wi 0 (xio_in_hi st)) || negb (in_range wo 0 (xio_out_hi st)) then Panic PSliceIndex else
            do r <- resample_unit fin fout (slice wi 0 (xio_in_hi st)) (slice wo 0 (xio_out_hi st)) ov;
            let '(o', ov') := r in
            Ok (wi, o' ++ skipn (Z.to_nat (xio_out_hi st)) wo, ov'))
          (zip3 wave_in wave_out (fs_overlaps s)) mask;
  Ok (mk_fstate st (map (fun x => snd x) r) (fs_bufs s) mask,
      (xio_ret_in st, xio_ret_out st),
      map (fun x => snd (fst x)) r).

(** * FftFixedOut *)
Definition xo_pib (s : fstate FftFixedOut) (wave_in wave_out : list (list snum))
           (mask_opt : option (list bool)) : res (fstate FftFixedOut * (Z * Z) * list (list snum)) :=
  let st := fs_ctl s in
  do mask <- prologue (xo_mask_bad st) (xo_val_channels st) (fs_mask s) mask_opt;
  do _ <- validate_buffers (map zlen wave_in) (map zlen wave_out) mask
                           (xo_val_channels st) (xo_val_min_in st) (xo_val_min_out st);
  let fin := FftFixedOut_fft_size_in st in
  let fout := FftFixedOut_fft_size_out st in
  (* resample into the internal output buffers *)
  do r <- per_channel (fun '(wi, ob, ov) =>
            if negb (in_range wi 0 (xo_in_hi st)) then Panic PSliceIndex else
            if negb (in_range ob (xo_obuf_lo st) (zlen ob)) then Panic PSliceIndex else
            if (xo_in_chunk st =? 0) || (xo_out_chunk st =? 0) then Panic PChunkZero else
            do r <- run_units fin fout (chunks (xo_in_chunk st) (slice wi 0 (xo_in_hi st)))
                              (chunks (xo_out_chunk st) (skipn (Z.to_nat (xo_obuf_lo st)) ob)) ov;
            let '(obs, ov') := r in
            Ok (wi, firstn (Z.to_nat (xo_obuf_lo st)) ob ++ concat obs, ov'))
          (zip3 wave_in (fs_bufs s) (fs_overlaps s)) mask;
  let bufs1 := map (fun x => snd (fst x)) r in
  let ovs1 := map (fun x => snd x) r in
  let processed := xo_processed_frames st in
  do r2 <-
    (if xo_enough st processed then
       let st1 := set_FftFixedOut_saved_frames st (xo_saved_if_enough st processed) in
       do r <- per_channel (fun '(wo, ob) =>
                 if negb (in_range wo 0 (xo_copy_hi st1)) || negb (in_range ob 0 (xo_copy_src_hi st1)) then Panic PSliceIndex else
                 if negb (xo_copy_hi st1 =? xo_copy_src_hi st1) then Panic PCopyLen else
                 match copy_within ob (xo_keep_lo st1) (xo_keep_hi st1) 0 with
                 | None => Panic PSliceIndex
                 | Some ob' => Ok (slice ob 0 (xo_copy_src_hi st1) ++ skipn (Z.to_nat (xo_copy_hi st1)) wo, ob')
                 end)
               (combine wave_out bufs1) mask;
       Ok (st1, map fst r, map snd r)
     else Ok (set_FftFixedOut_saved_frames st (xo_saved_else st processed), wave_out, bufs1));
  let '(st1, outs, bufs2) := r2 in
  let fno := xo_frames_needed_out st1 in
  let used := xo_input_frames_used st1 in
  let cn := xo_chunks_needed st1 fno in
  let st2 := set_FftFixedOut_frames_needed st1 (xo_frames_needed_next st1 cn) in
  Ok (mk_fstate st2 ovs1 bufs2 mask, (xo_ret_in st2 used, xo_ret_out st2), outs).

(** * FftFixedIn *)
Fixpoint overwrite {A} (dst src : list A) : list A :=   (* zip-assign: min(len) elements *)
  match dst, src with
  | _ :: d', s :: s' => s :: overwrite d' s'
  | d, _ => d
  end.

Definition xi_pib (s : fstate FftFixedIn) (wave_in wave_out : list (list snum))
           (mask_opt : option (list bool)) : res (fstate FftFixedIn * (Z * Z) * list (list snum)) :=
  let st := fs_ctl s in
  do mask <- prologue (xi_mask_bad st) (xi_val_channels st) (fs_mask s) mask_opt;
  let next_saved := xi_next_saved_frames st in
  let ready := xi_nbr_chunks_ready st next_saved in
  let needed_len := xi_needed_len st ready in
  do _ <- validate_buffers (map zlen wave_in) (map zlen wave_out) mask
                           (xi_val_channels st) (xi_val_min_in st) (xi_val_min_out st needed_len);
  (* copy the new samples behind the parked ones *)
  do bufs1 <- per_channel (fun '(wi, ib) =>
                let sk := Z.to_nat (xi_skip st) in
                let window := firstn (Z.to_nat (xi_take st)) (skipn sk ib) in
                Ok (wi, firstn sk ib ++ overwrite window wi ++ skipn (sk + length window) ib))
              (combine wave_in (fs_bufs s)) mask;
  let bufs1 := map snd bufs1 in
  let st1 := set_FftFixedIn_saved_frames st (xi_saved_mid st next_saved) in
  let fin := FftFixedIn_fft_size_in st1 in
  let fout := FftFixedIn_fft_size_out st1 in
  do r <- per_channel (fun '(ib, wo, ov) =>
            if (xi_in_chunk st1 =? 0) || (xi_out_chunk st1 =? 0) then Panic PChunkZero else
            do r <- run_units fin fout (firstn (Z.to_nat (xi_take_chunks st1 ready)) (chunks (xi_in_chunk st1) ib))
                              (chunks (xi_out_chunk st1) wo) ov;
            let '(os, ov') := r in
            Ok (ib, concat os, ov'))
          (zip3 bufs1 wave_out (fs_overlaps s)) mask;
  let outs := map (fun x => snd (fst x)) r in
  let ovs1 := map (fun x => snd x) r in
  let used := xi_frames_in_used st1 ready in
  let extra := xi_extra st1 used in
  if extra <? 0 then Panic POverflow else
  do bufs2 <- (if xi_keep_cond st1 used then
                 per_channel (fun ib => match copy_within ib (xi_keep_lo st1 used) (xi_keep_hi st1) 0 with
                                        | None => Panic PSliceIndex | Some ib' => Ok ib' end) bufs1 mask
               else Ok bufs1);
  let st2 := set_FftFixedIn_saved_frames st1 (xi_saved_end st1 extra) in
  Ok (mk_fstate st2 ovs1 bufs2 mask, (xi_ret_in st2, xi_ret_out st2 needed_len), outs).

End Fft.

Arguments mk_fstate {C S St}. Arguments fs_ctl {C S St}. Arguments fs_overlaps {C S St}.
Arguments fs_bufs {C S St}. Arguments fs_mask {C S St}.
