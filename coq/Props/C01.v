(** C01 — Band-limited signals are reproduced faithfully at the new rate (passband).
    PARTIAL.  What is proved (ideal arithmetic; proofs in Proofs/FilterR.v, PolyExact.v, KernelsR.v):
    a sinc resampler evaluates, for the instant t of an output frame, a bank of FIR filters (one per
    branch of the oversampled table, each an exact dot product) at the grid points of spacing
    1/factor around t and blends them with the Lagrange interpolation polynomial on exactly those
    grid points at exactly the offset of t in its cell — the premise of the "textbook error bound of
    nearest / linear / quadratic / cubic interpolation on a grid of 1/oversampling_factor input
    samples"; the nearest mode picks a branch within half a grid step.  The instants themselves are
    C06/C07, chunking independence C05.  What is NOT proved: the frequency response of the windowed
    sinc branches and of the FFT filter (window leakage, 1 % / 0.1 % amplitude, dB thresholds):
    transcendental functions over a continuum of parameters; measured on every run by tone probes
    (tools/props.py run_C01) against the thresholds of the property.                          *)
From Coq Require Import String ZArith Reals List.
From Rubato.Model Require Import Num Reals Base Nearest Kernels Async.
From Rubato.Gen Require Import SincGen Summary.
From Rubato.Proofs Require Import PolyExact NearestR KernelsR FilterR.
Import ListNotations.
Local Open Scope R_scope.

(** nearest mode: the selected branch represents an instant within 1/(2 factor) of t *)
Theorem C01_nearest_accurate_R : forall (t : R) n, (1 <= n)%Z ->
  let p := @get_nearest_time CR t n in
  Rabs (pt_time n p - t) <= / (2 * IZR n) /\ (0 <= snd p < n)%Z.
Proof. exact nearest1_accurate. Qed.

(** t lies in the grid cell [cell/n, (cell+1)/n) *)
Theorem C01_cell_R : forall (t : R) n, (1 <= n)%Z -> IZR (cell t n) <= t * IZR n < IZR (cell t n) + 1.
Proof. exact nt_sub_floor_cell. Qed.

(** cubic / quadratic / linear modes: the nodes are the consecutive grid points cell-1..cell+2 /
    cell..cell+2 / cell..cell+1, each with a valid branch index *)
Theorem C01_nodes_cubic_R : forall (t : R) n, (2 <= n)%Z -> on_grid t n 1 (@get_nearest_times_4 CR t n).
Proof. exact nearest4_grid. Qed.
Theorem C01_nodes_quadratic_R : forall (t : R) n, (2 <= n)%Z -> on_grid t n 0 (@get_nearest_times_3 CR t n).
Proof. exact nearest3_grid. Qed.
Theorem C01_nodes_linear_R : forall (t : R) n, (1 <= n)%Z -> on_grid t n 0 (@get_nearest_times_2 CR t n).
Proof. exact nearest2_grid. Qed.

(** the abscissa of the blend is the offset of t in its cell, in [0,1) *)
Theorem C01_offset_R : forall (st : @SincFixedIn CR) (t : R) n, (1 <= n)%Z ->
  @si_cubic_frac CR st t n = t * IZR n - IZR (cell t n) /\ 0 <= @si_cubic_frac CR st t n < 1.
Proof. exact frac_is_offset. Qed.

(** the blends are the Lagrange interpolants on nodes -1,0,1,2 / 0,1,2 / 0,1 (generated from
    asynchro_sinc.rs interp_cubic / interp_quad / interp_lin) *)
Theorem C01_blend_cubic_R : forall c0 c1 c2 c3 x,
  let p := poly7 c0 c1 c2 c3 0 0 0 0 in @sinc_interp_cubic CR SR x [p (-1); p 0; p 1; p 2] = p x.
Proof. exact sinc_cubic_exact. Qed.
Theorem C01_blend_quadratic_R : forall c0 c1 c2 x,
  let p := poly7 c0 c1 c2 0 0 0 0 0 in @sinc_interp_quad CR SR x [p 0; p 1; p 2] = p x.
Proof. exact sinc_quad_exact. Qed.
Theorem C01_blend_linear_R : forall c0 c1 x,
  let p := poly7 c0 c1 0 0 0 0 0 0 in @sinc_interp_lin CR SR x [p 0; p 1] = p x.
Proof. exact sinc_lin_exact. Qed.

(** each branch is an FIR filter: the kernel is the exact dot product of the window with the branch *)
Theorem C01_branch_is_fir_R : forall k (w s : list R) (n : nat),
  @List.length R w = (8 * n)%nat -> @List.length R s = (8 * n)%nat -> @kernel CR SR k w s = dot w s.
Proof. exact kernel_is_dot. Qed.

(** hand-modelled source regions (interpolation.rs is also compared bit for bit through FN nearest) *)
Theorem C01_source_regions :
  src_hash_interpolation_rs = "4d7e253a90c7263f50b19e37a69a79fe"%string /\
  src_hash_sinc_rs = "836f229828bb0600c659cb0ef072f0bb"%string /\
  src_hash_windows_rs = "e55e5fc09b4710ef3e62fea2b571dedf"%string /\
  src_hash_fft_core = "b42bed0dd611432617a6cd35a406882c"%string.
Proof. repeat split; reflexivity. Qed.

Print Assumptions C01_nearest_accurate_R.
Print Assumptions C01_cell_R.
Print Assumptions C01_nodes_cubic_R.
Print Assumptions C01_nodes_quadratic_R.
Print Assumptions C01_nodes_linear_R.
Print Assumptions C01_offset_R.
Print Assumptions C01_blend_cubic_R.
Print Assumptions C01_blend_quadratic_R.
Print Assumptions C01_blend_linear_R.
Print Assumptions C01_branch_is_fir_R.
Print Assumptions C01_source_regions.
