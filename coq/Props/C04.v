(** C04 — Advertised frame counts are true bounds and exact reports.
    Statements only (ideal arithmetic; polynomial resamplers at constant ratio, plus the
    next <= max inequalities of the fixed-input types for every accepted ratio).              *)
From Coq Require Import ZArith Reals List Bool.
From Rubato.Model Require Import Num Reals Base Validate Async Resamplers.
From Rubato.Gen Require Import FastGen SincGen.
From Rubato.Proofs Require Import MalformedP FastInR FastOutR FastCtorR GettersR SincInR SincOutR FftInOutP FftInR FftOutR GettersFftR CtlFftP F32Quot CtlFftB.
From Rubato.Model Require Floats.
From Rubato.Model Require Import Fft.
From Rubato.Gen Require Import SynchroGen.
Local Open Scope R_scope.

(** FastFixedIn: a valid call consumes exactly input_frames_next() (= chunk) frames, writes
    n <= output_frames_next() frames and returns exactly (chunk, n). *)
Theorem C04_fast_in_counts_R : forall d (s : @astate CR SR (@FastFixedIn CR)) wi wo m,
  fi_wf s -> a_precheck (@fi_arch CR SR d) s wi wo m = Ok tt ->
  exists s' n outs,
    pib (@fi_arch CR SR d) s wi wo m = Ok (s', (@fi_input_frames_next CR (as_ctl s), n), outs) /\
    (0 <= n <= @fi_output_frames_next CR (as_ctl s))%Z.
Proof.
  intros d s wi wo m W P. destruct (fi_call_const_R d s wi wo m W P) as (s' & n & outs & E & _ & Hn & _).
  exists s', n, outs. split; [exact E | exact Hn].
Qed.

(** the same through non-ramped ratio changes: in every history of valid calls and accepted ratio steps that stay outside
    the two recorded defect classes (see C03_fast_in_steps_safe_R), every call consumes chunk_size frames and writes
    at most the output_frames_next() advertised just before it.  [call_ok C (a, b, adv)] is  a = C /\ 0 <= b <= adv. *)
Theorem C04_fast_in_steps_counts_R : forall d ops rc (s : @astate CR SR (@FastFixedIn CR)),
  fi_wfs d rc s -> steps_compatible d rc (FastInR.ratio s) ops ->
  forall s' log, fi_run_ops d s ops = Ok (s', log) -> Forall (call_ok (Cz s)) log.
Proof.
  intros d ops rc s W Hc s' log E. generalize (fi_history_steps_R d ops rc s W Hc). rewrite E. intros (_ & _ & H). exact H.
Qed.

Theorem C04_sinc_in_steps_counts_R : forall env ops rc (s : @astate CR SR (@SincFixedIn CR)),
  si_wfs env rc s -> ssteps_compatible (sL s) rc (sratio s) ops ->
  forall s' log, si_run_ops env s ops = Ok (s', log) -> Forall scall_ok log.
Proof.
  intros env ops rc s W Hc s' log E. generalize (si_history_steps_R env ops rc s W Hc). rewrite E. intros (_ & _ & H). exact H.
Qed.

(** fixed-output types, any accepted non-ramped ratio changes (and set_chunk_size): every call consumes exactly
    input_frames_next() and produces exactly chunk_size = output_frames_next() frames *)
Theorem C04_fast_out_steps_counts_R : forall d blen ops (s : @astate CR SR (@FastFixedOut CR)), fo_wfe blen s ->
  forall s' log, fo_run_ops d s ops = Ok (s', log) -> Forall ocall_ok log.
Proof.
  intros d blen ops s W s' log E. generalize (fo_history_steps_R d blen ops s W). rewrite E. intros (_ & _ & H). exact H.
Qed.
Theorem C04_sinc_out_steps_counts_R : forall env blen ops (s : @astate CR SR (@SincFixedOut CR)), so_wfe env blen s ->
  (forall n, In (U2Chunk n) ops -> (0 <= n)%Z) ->
  forall s' log, so_run_ops env s ops = Ok (s', log) -> Forall ucall_ok log.
Proof.
  intros env blen ops s W Hn s' log E. generalize (so_history_steps_R env blen ops s W Hn). rewrite E. intros (_ & _ & H). exact H.
Qed.

(** FastFixedOut: consumes exactly input_frames_next(), produces exactly output_frames_next(). *)
Theorem C04_fast_out_counts_R : forall d blen (s : @astate CR SR (@FastFixedOut CR)) wi wo m,
  fo_wf blen s -> a_precheck (@fo_arch CR SR d) s wi wo m = Ok tt ->
  exists s' outs,
    pib (@fo_arch CR SR d) s wi wo m =
    Ok (s', (@fo_input_frames_next CR (as_ctl s), @fo_output_frames_next CR (as_ctl s)), outs).
Proof.
  intros d blen s wi wo m W P. destruct (fo_call_const_R d blen s wi wo m W P) as (s' & outs & E & _).
  exists s', outs. exact E.
Qed.

(** SincFixedIn: consumes exactly chunk_size = input_frames_next(), writes n <= output_frames_next(). *)
Theorem C04_sinc_in_counts_R : forall env (s : @astate CR SR (@SincFixedIn CR)) wi wo m,
  si_wf env s -> a_precheck (@si_arch CR SR env) s wi wo m = Ok tt ->
  exists s' n outs,
    pib (@si_arch CR SR env) s wi wo m = Ok (s', (@si_input_frames_next CR (as_ctl s), n), outs) /\
    (0 <= n <= @si_calc_needed_len CR (as_ctl s))%Z.
Proof.
  intros env s wi wo m W P. destruct (si_call_const_R env s wi wo m W P) as (s' & n & outs & E & Hn & _).
  exists s', n, outs. split; [exact E | exact Hn].
Qed.

(** next <= max while the ratios stay below original*max (what the setters enforce) *)
Theorem C04_fast_in_next_le_max_R : forall (st : @FastFixedIn CR),
  (0 <= FastFixedIn_chunk_size st)%Z ->
  FastFixedIn_resample_ratio st <= FastFixedIn_resample_ratio_original st * FastFixedIn_max_relative_ratio st ->
  FastFixedIn_target_ratio st <= FastFixedIn_resample_ratio_original st * FastFixedIn_max_relative_ratio st ->
  (@fi_output_frames_next CR st <= @fi_output_frames_max CR st)%Z.
Proof. exact fi_next_le_max_R. Qed.

Theorem C04_sinc_in_next_le_max_R : forall (st : @SincFixedIn CR),
  (0 <= SincFixedIn_chunk_size st <= SincFixedIn_max_chunk_size st)%Z ->
  0 <= SincFixedIn_resample_ratio st -> 0 <= SincFixedIn_target_ratio st ->
  SincFixedIn_resample_ratio st <= SincFixedIn_resample_ratio_original st * SincFixedIn_max_relative_ratio st ->
  SincFixedIn_target_ratio st <= SincFixedIn_resample_ratio_original st * SincFixedIn_max_relative_ratio st ->
  (@si_calc_needed_len CR st <= @si_output_frames_max CR st)%Z.
Proof. exact si_next_le_max_R. Qed.

Theorem C04_fast_out_next_le_max_R : forall blen (s : @astate CR SR (@FastFixedOut CR)),
  fo_wf blen s -> let st := as_ctl s in
  0 < FastFixedOut_resample_ratio_original st -> 0 < FastFixedOut_max_relative_ratio st ->
  FastFixedOut_resample_ratio_original st / FastFixedOut_max_relative_ratio st <= FastFixedOut_resample_ratio st ->
  (@fo_input_frames_next CR st <= @fo_input_frames_max CR st)%Z.
Proof. exact fo_next_le_max_R. Qed.

(** the synchronous resamplers: next <= max at every state satisfying the call invariant (established by the constructors,
    kept by every call, see the C03_fft theorems); FftFixedInOut and the remaining sides are equalities by definition of the getters *)
Theorem C04_fft_out_next_le_max_R : forall unit_fn (s : @fstate CR SR FftFixedOut),
  xo_wf unit_fn s -> (xo_input_frames_next (fs_ctl s) <= @xo_input_frames_max CR (fs_ctl s))%Z.
Proof. exact xo_next_le_max_R. Qed.
Theorem C04_fft_in_next_le_max_R : forall unit_fn (s : @fstate CR SR FftFixedIn),
  xi_wf unit_fn s -> (@xi_output_frames_next CR (fs_ctl s) <= xi_output_frames_max (fs_ctl s))%Z /\
                     xi_input_frames_next (fs_ctl s) = xi_input_frames_max (fs_ctl s).
Proof. exact xi_next_le_max_R. Qed.
Theorem C04_fft_inout_next_eq_max : forall (st : FftFixedInOut), xio_input_frames_next st = xio_input_frames_max st.
Proof. exact xio_next_eq_max. Qed.

(** The synchronous resamplers in the BIT-EXACT arithmetic (Flocq binary32 quotients, any sample type, any spectral core):
    for sizes below 2^24 frames the new control record and the counts returned by every successful call are the values of
    the ideal-arithmetic control functions [xo_ctl_next] / [xi_ctl_next] -- the ones the theorems above characterise --
    because (a as f32 / b as f32).ceil() and .floor() are exact for integers below 2^24 (ceil32_quot_B, floor32_quot_B). *)
Theorem C04_f32_quotients_exact : forall a b, (0 <= a < 2 ^ 24)%Z -> (1 <= b < 2 ^ 24)%Z ->
  @c32_to_usize Floats.CB (@ceil32 Floats.CB (@div32 Floats.CB (@c32_of_Z Floats.CB a) (@c32_of_Z Floats.CB b))) = Flocq.Core.Raux.Zceil (IZR a / IZR b) /\
  @c32_to_usize Floats.CB (@floor32 Floats.CB (@div32 Floats.CB (@c32_of_Z Floats.CB a) (@c32_of_Z Floats.CB b))) = (a / b)%Z.
Proof. intros a b Ha Hb. split; [exact (ceil32_quot_B a b Ha Hb) | exact (floor32_quot_B a b Ha Hb)]. Qed.

Theorem C04_fft_out_counts_binary : forall (S : SNum Floats.CB) unit_fn (s s' : @fstate Floats.CB S FftFixedOut) wi wo m c o,
  (0 <= FftFixedOut_chunk_size_out (fs_ctl s) < 2 ^ 24)%Z -> (1 <= FftFixedOut_fft_size_out (fs_ctl s) < 2 ^ 24)%Z ->
  (1 <= FftFixedOut_fft_size_in (fs_ctl s))%Z -> (0 <= FftFixedOut_saved_frames (fs_ctl s))%Z -> (0 <= FftFixedOut_frames_needed (fs_ctl s))%Z ->
  xo_pib unit_fn s wi wo m = Ok (s', c, o) -> (fs_ctl s', c) = @xo_ctl_next CR (fs_ctl s).
Proof.
  intros S u s s' wi wo m c o H1 H2 H3 H4 H5 E. rewrite <- (xo_ctl_next_B (fs_ctl s) H1 H2 H3 H4 H5). exact (xo_pib_ctl u _ _ _ _ _ _ _ E).
Qed.

Theorem C04_fft_in_counts_binary : forall (S : SNum Floats.CB) unit_fn (s s' : @fstate Floats.CB S FftFixedIn) wi wo m c o,
  (0 <= FftFixedIn_saved_frames (fs_ctl s) + FftFixedIn_chunk_size_in (fs_ctl s) < 2 ^ 24)%Z ->
  (1 <= FftFixedIn_fft_size_in (fs_ctl s) < 2 ^ 24)%Z ->
  xi_pib unit_fn s wi wo m = Ok (s', c, o) -> (fs_ctl s', c) = @xi_ctl_next CR (fs_ctl s).
Proof.
  intros S u s s' wi wo m c o H1 H2 E. rewrite <- (proj1 (xi_ctl_next_B (fs_ctl s) H1 H2)). exact (xi_pib_ctl u _ _ _ _ _ _ _ E).
Qed.

(** SincFixedOut: [so_li_ok] (the carried position never exceeds its initial value -(sinc_len/2)) holds at construction, after
    every call and through set_chunk_size; with it the request never exceeds input_frames_max() at any accepted ratio *)
Theorem C04_sinc_out_next_le_max_R : forall env blen (s : @astate CR SR (@SincFixedOut CR)),
  so_wf env blen s -> so_li_ok s -> let st := as_ctl s in
  0 < SincFixedOut_resample_ratio_original st -> 0 < SincFixedOut_max_relative_ratio st ->
  SincFixedOut_resample_ratio_original st / SincFixedOut_max_relative_ratio st <= SincFixedOut_resample_ratio st ->
  (@so_input_frames_next CR st <= @so_input_frames_max CR st)%Z.
Proof. exact so_next_le_max_R. Qed.
Theorem C04_sinc_out_li_ok : 
  (forall ratio maxrel env ilen inbr chunk nch s,
     @sinc_out_new CR SR ratio maxrel env ilen inbr chunk nch = inr (RSincOut env s) -> so_li_ok s) /\
  (forall env blen (s s' : @astate CR SR (@SincFixedOut CR)) wi wo m outs,
     so_wf env blen s -> a_precheck (@so_arch CR SR env) s wi wo m = Ok tt ->
     pib (@so_arch CR SR env) s wi wo m = Ok (s', (uneeded s, uC s), outs) -> so_li_ok s') /\
  (forall (s : @astate CR SR (@SincFixedOut CR)) n, so_li_ok s -> so_li_ok (so_set_chunk s n)).
Proof. split; [exact so_li_ok_ctor | split; [exact so_li_ok_after_call | exact so_li_ok_set_chunk]]. Qed.

(** SincFixedOut at constant ratio (any set_chunk_size schedule): a valid call consumes exactly
    input_frames_next() = needed_input_size frames and writes exactly chunk_size frames *)
Theorem C04_sinc_out_counts_R : forall env blen (s : @astate CR SR (@SincFixedOut CR)) wi wo m,
  so_wf env blen s -> a_precheck (@so_arch CR SR env) s wi wo m = Ok tt ->
  exists s' outs, pib (@so_arch CR SR env) s wi wo m = Ok (s', (@so_input_frames_next CR (as_ctl s), @so_output_frames_next CR (as_ctl s)), outs).
Proof.
  intros env blen s wi wo m W P. destruct (so_call_const_R env blen s wi wo m W P) as (s' & outs & E & _).
  exists s', outs. exact E.
Qed.

(** FFT resamplers: the counts returned by a valid call are exactly what the getters advertised before the call *)
Theorem C04_fft_in_counts_R : forall unit_fn (s : @fstate CR SR FftFixedIn) wi wo m,
  xi_wf unit_fn s -> xi_pre s wi wo m = Ok tt ->
  exists s' outs, @xi_pib CR SR unit_fn s wi wo m =
                  Ok (s', (xi_input_frames_next (fs_ctl s), @xi_output_frames_next CR (fs_ctl s)), outs).
Proof. exact xi_counts. Qed.

Theorem C04_fft_out_counts_R : forall unit_fn (s : @fstate CR SR FftFixedOut) wi wo m,
  xo_wf unit_fn s -> xo_pre s wi wo m = Ok tt ->
  exists s' outs, @xo_pib CR SR unit_fn s wi wo m =
                  Ok (s', (xo_input_frames_next (fs_ctl s), xo_output_frames_max (fs_ctl s)), outs).
Proof. exact xo_counts. Qed.

Theorem C04_fft_inout_counts : forall (C : CNum) (S : SNum C) unit_fn (s : @fstate C S FftFixedInOut) wi wo m,
  xio_wf unit_fn s -> xio_pre s wi wo m = Ok tt ->
  exists s' outs, xio_pib unit_fn s wi wo m =
                  Ok (s', (xio_input_frames_next (fs_ctl s), xio_output_frames_max (fs_ctl s)), outs).
Proof. intros C S. exact (@xio_counts C S). Qed.

(** ** binary64 (Flocq): FastFixedIn's output_frames_next() never exceeds output_frames_max(), for *every* binary64 state whose two
    ratios lie in [0, original*max] (what the generated accept test of set_resample_ratio enforces), overflow and the saturating
    cast included.  Proofs/GettersB.v: rounding is monotone, so are x -> c*x, x -> x+10 and the cast. *)
From Flocq Require Import Core BinarySingleNaN.
From Rubato.Proofs Require Import RatioBounds GettersB.

Theorem C04_fast_in_next_le_max_B64 : forall (st : @FastFixedIn Floats.CB),
  let orig := FastFixedIn_resample_ratio_original st in
  let maxrel := FastFixedIn_max_relative_ratio st in
  let hi := Bmult mode_NE orig maxrel in
  let r := FastFixedIn_resample_ratio st in
  let g := FastFixedIn_target_ratio st in
  (0 <= FastFixedIn_chunk_size st < 2 ^ 53)%Z ->
  is_finite hi = true -> (bpow radix2 (-1021) <= B2R hi)%R ->
  is_finite r = true -> is_finite g = true ->
  (0 <= B2R r <= B2R hi)%R -> (0 <= B2R g <= B2R hi)%R ->
  (@fi_output_frames_next Floats.CB st <= @fi_output_frames_max Floats.CB st)%Z.
Proof. exact fi_next_le_max_B64. Qed.

Theorem C04_fast_in_next_le_max_accepted_B64 : forall (st : @FastFixedIn Floats.CB),
  let orig := FastFixedIn_resample_ratio_original st in
  let maxrel := FastFixedIn_max_relative_ratio st in
  ctor_ok orig maxrel ->
  (0 <= FastFixedIn_chunk_size st < 2 ^ 53)%Z ->
  (bpow radix2 (-1021) <= B2R (hi64 orig maxrel))%R ->
  @fi_set_ratio_accept Floats.CB st (FastFixedIn_resample_ratio st) = true ->
  @fi_set_ratio_accept Floats.CB st (FastFixedIn_target_ratio st) = true ->
  (@fi_output_frames_next Floats.CB st <= @fi_output_frames_max Floats.CB st)%Z.
Proof. exact fi_next_le_max_accepted_B64. Qed.

(** the same for SincFixedIn at any chunk size up to the maximum *)
Theorem C04_sinc_in_next_le_max_B64 : forall (st : @SincFixedIn Floats.CB),
  let orig := SincFixedIn_resample_ratio_original st in
  let maxrel := SincFixedIn_max_relative_ratio st in
  let hi := Bmult mode_NE orig maxrel in
  let r := SincFixedIn_resample_ratio st in
  let g := SincFixedIn_target_ratio st in
  (0 <= SincFixedIn_chunk_size st <= SincFixedIn_max_chunk_size st)%Z ->
  (SincFixedIn_max_chunk_size st < 2 ^ 53)%Z ->
  is_finite hi = true -> (bpow radix2 (-1021) <= B2R hi)%R ->
  is_finite r = true -> is_finite g = true ->
  (0 <= B2R r <= B2R hi)%R -> (0 <= B2R g <= B2R hi)%R ->
  (@si_calc_needed_len Floats.CB st <= @si_output_frames_max Floats.CB st)%Z.
Proof. exact si_next_le_max_B64. Qed.

(* non-vacuity: original ratio 1, max relative ratio 2, a ratio at the upper bound is accepted *)
Theorem C04_fast_in_next_le_max_B64_example :
  let orig := one64 in
  let maxrel := Floats.b_lit 53 1024 1 1 in
  ctor_ok orig maxrel /\ (bpow radix2 (-1021) <= B2R (hi64 orig maxrel))%R /\
  accept64 orig maxrel (hi64 orig maxrel) = true.
Proof. exact fi_next_le_max_example. Qed.

(* FastFixedOut as constructed (needed_input_size = the constructor's f64 formula): the first
   advertised input_frames_next is at most input_frames_max in binary64, overflow of the quotient
   to +inf and the saturating cast included (Proofs/GettersOutB.v: ceil is monotone, x <= RN(x*m) for m >= 1) *)
From Rubato.Proofs Require Import GettersOutB.
Theorem C04_fast_out_fresh_next_le_max_B64 : forall (st : @FastFixedOut Floats.CB),
  let orig := FastFixedOut_resample_ratio_original st in
  let maxrel := FastFixedOut_max_relative_ratio st in
  let chunk := FastFixedOut_chunk_size st in
  (1 <= chunk < 2 ^ 53)%Z ->
  is_finite orig = true -> (0 < B2R orig)%R ->
  is_finite maxrel = true -> (1 <= B2R maxrel)%R ->
  FastFixedOut_needed_input_size st = @fo_new_needed_input_size Floats.CB chunk orig ->
  (@fo_input_frames_next Floats.CB st <= @fo_input_frames_max Floats.CB st)%Z.
Proof. exact fo_fresh_next_le_max_B64. Qed.

(* non-vacuity: chunk 1024, ratio 1, max relative ratio 2: next = 1028, max = 2054 *)
Theorem C04_fast_out_fresh_next_le_max_B64_example :
  let st := fo_example in
  (1 <= FastFixedOut_chunk_size st < 2 ^ 53)%Z /\
  is_finite (FastFixedOut_resample_ratio_original st) = true /\ (0 < B2R (FastFixedOut_resample_ratio_original st))%R /\
  is_finite (FastFixedOut_max_relative_ratio st) = true /\ (1 <= B2R (FastFixedOut_max_relative_ratio st))%R /\
  FastFixedOut_needed_input_size st =
    @fo_new_needed_input_size Floats.CB (FastFixedOut_chunk_size st) (FastFixedOut_resample_ratio_original st) /\
  @fo_input_frames_next Floats.CB st = 1028%Z /\ @fo_input_frames_max Floats.CB st = 2054%Z.
Proof. exact fo_fresh_example. Qed.

(* SincFixedOut as constructed: the same statement (chunk_size = max_chunk_size) *)
Theorem C04_sinc_out_fresh_next_le_max_B64 : forall (st : @SincGen.SincFixedOut Floats.CB),
  let orig := SincGen.SincFixedOut_resample_ratio_original st in
  let maxrel := SincGen.SincFixedOut_max_relative_ratio st in
  let chunk := SincGen.SincFixedOut_max_chunk_size st in
  let L := SincGen.SincFixedOut_interpolator_len st in
  (1 <= chunk < 2 ^ 53)%Z ->
  is_finite orig = true -> (0 < B2R orig)%R ->
  is_finite maxrel = true -> (1 <= B2R maxrel)%R ->
  SincGen.SincFixedOut_needed_input_size st = @SincGen.so_new_needed_input_size Floats.CB chunk L orig ->
  (@SincGen.so_input_frames_next Floats.CB st <= @SincGen.so_input_frames_max Floats.CB st)%Z.
Proof. exact so_fresh_next_le_max_B64. Qed.

Print Assumptions C04_fast_in_counts_R.
Print Assumptions C04_fast_out_counts_R.
Print Assumptions C04_fast_in_next_le_max_R.
Print Assumptions C04_fast_out_next_le_max_R.
Print Assumptions C04_sinc_in_counts_R.
Print Assumptions C04_sinc_out_counts_R.
Print Assumptions C04_fft_in_counts_R.
Print Assumptions C04_fft_out_counts_R.
Print Assumptions C04_fft_inout_counts.
Print Assumptions C04_fast_in_steps_counts_R.
Print Assumptions C04_sinc_in_steps_counts_R.
Print Assumptions C04_fast_out_steps_counts_R.
Print Assumptions C04_sinc_out_steps_counts_R.
Print Assumptions C04_fft_out_next_le_max_R.
Print Assumptions C04_fft_in_next_le_max_R.
Print Assumptions C04_sinc_out_next_le_max_R.
Print Assumptions C04_f32_quotients_exact.
Print Assumptions C04_fft_out_counts_binary.
Print Assumptions C04_fft_in_counts_binary.
Print Assumptions C04_fast_in_next_le_max_B64.
Print Assumptions C04_fast_in_next_le_max_accepted_B64.
Print Assumptions C04_sinc_in_next_le_max_B64.
Print Assumptions C04_fast_out_fresh_next_le_max_B64.
Print Assumptions C04_sinc_out_fresh_next_le_max_B64.
