(** C05 — Output stream is independent of chunking and of the FixedIn/FixedOut variant.
    Statements only; proofs in Proofs/StreamR.v and Proofs/StreamOutR.v (ideal arithmetic, constant
    ratio, polynomial resamplers).  The specification [fast_spec d X G] mentions neither a chunk size
    nor a variant: output frame j of the whole stream is the interpolation polynomial through the
    input samples around the instant -4 + (j+1)/ratio.  The sinc and FFT resamplers, chunk-size
    changes in mid-stream and ratio schedules are decided by the bit-exact model and the family
    comparison of every run (tools/props.py run_C05), not by these theorems.                 *)
From Coq Require Import ZArith Reals List.
From Rubato.Model Require Import Num Reals Base Async Resamplers.
From Rubato.Proofs Require Import MalformedP ContentP FastInR FastOutR StreamR StreamOutR FftInOutP FftInR FftOutR FftStreamP FftInStreamR FftOutStreamR NearestR SincInR SincStreamR SincOutR SincOutStreamR.
From Rubato.Gen Require Import SincGen.
From Rubato.Model Require Import Fft.
From Rubato.Gen Require Import SynchroGen.
Import ListNotations.
Local Open Scope R_scope.

(** one call of FastFixedIn: the buffer of channel c holds exactly the last chunk+16 samples of the
    stream before and after (nothing lost, duplicated or stale), and the frames written are the
    specification at the instants N + last_index + (k+1)/ratio *)
Theorem C05_fast_in_call_R : forall d (s : @astate CR SR (@FastGen.FastFixedIn CR)) wi wo (c : nat) (X : Z -> R) (N : Z) w,
  fi_wf s -> a_precheck (@fi_arch CR SR d) s wi wo None = Ok tt ->
  holds s c X N -> nth_error wi c = Some w -> feeds w X N (Cz s) ->
  exists s' (n : Z) outs o,
    pib (@fi_arch CR SR d) s wi wo None = Ok (s', (Cz s, n), outs) /\ fi_wf s' /\ (0 <= n)%Z /\
    li s' = li s + IZR n * / ratio s - IZR (Cz s) /\ Cz s' = Cz s /\ ratio s' = ratio s /\
    holds s' c X (N + Cz s) /\
    nth_error outs c = Some o /\ (n <= zlen o)%Z /\
    forall k, (0 <= k < n)%Z -> getz 0 o k = fast_spec d X (IZR N + li s + IZR (k + 1) * / ratio s).
Proof. exact fi_call_stream_R. Qed.

(** the whole stream of a freshly constructed FastFixedIn *)
Theorem C05_fast_in_stream_R : forall ratio0 maxrel d chunk nch s (c : nat) (X : Z -> R) calls,
  (1 <= chunk)%Z -> (0 <= nch)%Z -> (c < Z.to_nat nch)%nat ->
  @fast_in_new CR SR ratio0 maxrel d chunk nch = inr (RFastIn d s) ->
  (forall n, (n < 0)%Z -> X n = 0) ->
  fed c X 0 chunk calls ->
  match fi_stream d c s calls with
  | Ok (_, _, ys) => forall j, (0 <= j < zlen ys)%Z -> getz 0 ys j = fast_spec d X (-4 + IZR (j + 1) * / ratio0)
  | Err _ => True
  | Panic _ | UB _ | Diverge => False
  end.
Proof. exact fi_fresh_stream_R. Qed.

(** the whole stream of a freshly constructed FastFixedOut: the same specification *)
Theorem C05_fast_out_stream_R : forall ratio0 maxrel d chunk nch s (c : nat) (X : Z -> R) calls,
  (1 <= chunk)%Z -> (0 <= nch)%Z -> (c < Z.to_nat nch)%nat ->
  @fast_out_new CR SR ratio0 maxrel d chunk nch = inr (RFastOut d s) ->
  (forall n, (n < 0)%Z -> X n = 0) ->
  ofed d c X 0 s calls ->
  match fo_stream d c s calls with
  | Ok (_, _, ys) => forall j, (0 <= j < zlen ys)%Z -> getz 0 ys j = fast_spec d X (-4 + IZR (j + 1) * / ratio0)
  | Err _ => True
  | Panic _ | UB _ | Diverge => False
  end.
Proof. exact fo_fresh_stream_R. Qed.

(** any two chunk sizes (and channel counts, ratio ranges) *)
Theorem C05_fast_chunk_independent_R : forall ratio0 maxrel1 maxrel2 d chunk1 chunk2 nch1 nch2 s1 s2 c1 c2 (X : Z -> R) calls1 calls2,
  (1 <= chunk1)%Z -> (1 <= chunk2)%Z -> (0 <= nch1)%Z -> (0 <= nch2)%Z -> (c1 < Z.to_nat nch1)%nat -> (c2 < Z.to_nat nch2)%nat ->
  @fast_in_new CR SR ratio0 maxrel1 d chunk1 nch1 = inr (RFastIn d s1) ->
  @fast_in_new CR SR ratio0 maxrel2 d chunk2 nch2 = inr (RFastIn d s2) ->
  (forall n, (n < 0)%Z -> X n = 0) ->
  fed c1 X 0 chunk1 calls1 -> fed c2 X 0 chunk2 calls2 ->
  forall r1 r2 ys1 ys2, fi_stream d c1 s1 calls1 = Ok (r1, ys1) -> fi_stream d c2 s2 calls2 = Ok (r2, ys2) ->
  forall j, (0 <= j < zlen ys1)%Z -> (j < zlen ys2)%Z -> getz 0 ys1 j = getz 0 ys2 j.
Proof. exact fi_chunk_independent_R. Qed.

(** fixed-input against fixed-output *)
Theorem C05_fast_variant_independent_R : forall ratio0 maxrel1 maxrel2 d chunk1 chunk2 nch1 nch2 s1 s2 c1 c2 (X : Z -> R) calls1 calls2,
  (1 <= chunk1)%Z -> (1 <= chunk2)%Z -> (0 <= nch1)%Z -> (0 <= nch2)%Z -> (c1 < Z.to_nat nch1)%nat -> (c2 < Z.to_nat nch2)%nat ->
  @fast_in_new CR SR ratio0 maxrel1 d chunk1 nch1 = inr (RFastIn d s1) ->
  @fast_out_new CR SR ratio0 maxrel2 d chunk2 nch2 = inr (RFastOut d s2) ->
  (forall n, (n < 0)%Z -> X n = 0) ->
  fed c1 X 0 chunk1 calls1 -> ofed d c2 X 0 s2 calls2 ->
  forall r1 r2 ys1 ys2, fi_stream d c1 s1 calls1 = Ok (r1, ys1) -> fo_stream d c2 s2 calls2 = Ok (r2, ys2) ->
  forall j, (0 <= j < zlen ys1)%Z -> (j < zlen ys2)%Z -> getz 0 ys1 j = getz 0 ys2 j.
Proof. exact fast_variant_independent_R. Qed.

(** The synchronous resamplers.  The canonical stream of a list of input blocks (each fft_size_in samples) is the
    overlap-add of the spectral core applied block by block ([canon], Proofs/FftStreamP.v); it mentions neither a chunk
    size nor a sub-chunk count nor a variant.  FftFixedInOut (any arithmetic) hands out exactly this stream, one block
    per call; FftFixedIn (ideal arithmetic for its f32 quotient), whatever its chunk size and sub_chunks, hands out the
    canonical stream of the complete blocks it has consumed and parks the rest: every (chunk_size, sub_chunks) pair
    that resolves to the same block size yields the same stream.  FftFixedOut delivers, chunk_size_out frames at a
    time, a prefix of the canonical stream of the blocks it has consumed, the produced-but-undelivered frames being
    the next ones of that stream. *)
Theorem C05_fft_inout_stream : forall (C : CNum) (S : SNum C) unit_fn (c : nat) calls (s : @fstate C S FftFixedInOut) ov,
  xio_wf unit_fn s -> nth_error (fs_overlaps s) c = Some ov -> xio_live c calls ->
  match xio_stream unit_fn c s calls with
  | Ok (s', blocks, ys) => xio_wf unit_fn s' /\ ys = fst (canon unit_fn (xfout s) blocks ov) /\
                           nth_error (fs_overlaps s') c = Some (snd (canon unit_fn (xfout s) blocks ov)) /\ fs_ctl s' = fs_ctl s
  | Err _ => True
  | Panic _ | UB _ | Diverge => False
  end.
Proof. intros C S. exact (@xio_stream_canon C S). Qed.

(** one call of FftFixedIn: the parked frames are exactly the tail of the consumed input that does not fill a block
    (nothing lost, duplicated or stale), and the frames written extend the canonical stream by the blocks completed *)
Theorem C05_fft_in_call_R : forall unit_fn (s : @fstate CR SR FftFixedIn) wi wo m (c : nat) X ov0 w,
  xi_wf unit_fn s -> xi_pre s wi wo m = Ok tt -> xi_holds unit_fn s c X ov0 -> zlen ov0 = ifout s ->
  nth_error wi c = Some w -> match m with Some mk => nth_error mk c = Some true | None => True end ->
  let ready := ((isaved s + iC s) / ifin s)%Z in
  let X' := X ++ firstn (Z.to_nat (iC s)) w in
  exists s' outs o' j,
    @xi_pib CR SR unit_fn s wi wo m = Ok (s', (iC s, (ready * ifout s)%Z), outs) /\ xi_wf unit_fn s' /\
    ifin s' = ifin s /\ ifout s' = ifout s /\ iC s' = iC s /\
    xi_holds unit_fn s' c X' ov0 /\
    nth_error outs c = Some o' /\ (0 <= j)%Z /\ zlen X = (j * ifin s + isaved s)%Z /\
    zlen X' = ((j + ready) * ifin s + isaved s')%Z /\
    fst (canon unit_fn (ifout s) (chunks (ifin s) (firstn (Z.to_nat ((j + ready) * ifin s)) X')) ov0) =
    fst (canon unit_fn (ifout s) (chunks (ifin s) (firstn (Z.to_nat (j * ifin s)) X)) ov0) ++ firstn (Z.to_nat (ready * ifout s)) o'.
Proof. exact xi_call_stream. Qed.

(** the whole stream of a freshly constructed FftFixedIn, any chunk_size and sub_chunks *)
Theorem C05_fft_in_stream_R : forall unit_fn rate_in rate_out chunk sub nch s (c : nat) calls,
  (0 < rate_in)%Z -> (0 < rate_out)%Z -> (1 <= chunk)%Z -> (0 <= nch)%Z -> (c < Z.to_nat nch)%nat ->
  @fft_in_new CR SR rate_in rate_out chunk sub nch = inr (RFftIn s) ->
  (forall w, zlen w = ifin s -> zlen (unit_fn w) = (2 * ifout s)%Z) ->
  xi_live c calls ->
  match xi_stream unit_fn c s [] calls with
  | Ok (s', X', ys) =>
      ys = fst (@canon CR SR unit_fn (ifout s) (chunks (ifin s) (firstn (Z.to_nat (zlen X' / ifin s * ifin s)) X'))
                       (@zeros CR SR (ifout s)))
  | Err _ => True
  | Panic _ | UB _ | Diverge => False
  end.
Proof. exact xi_fresh_stream. Qed.

(** one call of FftFixedOut *)
Theorem C05_fft_out_call_R : forall unit_fn (s : @fstate CR SR FftFixedOut) wi wo m (c : nat) X ov0 M w,
  xo_wf unit_fn s -> xo_pre s wi wo m = Ok tt -> xo_holds unit_fn s c X ov0 M -> zlen ov0 = ofout s ->
  nth_error wi c = Some w -> match m with Some mk => nth_error mk c = Some true | None => True end ->
  let X' := X ++ firstn (Z.to_nat (oneed s)) w in
  let Y' := fst (canon unit_fn (ofout s) (chunks (ofin s) X') ov0) in
  exists s' outs o',
    @xo_pib CR SR unit_fn s wi wo m = Ok (s', (oneed s, oCo s), outs) /\ xo_wf unit_fn s' /\
    ofin s' = ofin s /\ ofout s' = ofout s /\ oCo s' = oCo s /\
    xo_holds unit_fn s' c X' ov0 (M + oCo s)%Z /\
    nth_error outs c = Some o' /\
    firstn (Z.to_nat (oCo s)) o' = firstn (Z.to_nat (oCo s)) (skipn (Z.to_nat M) Y') /\
    firstn (Z.to_nat M) Y' = firstn (Z.to_nat M) (fst (canon unit_fn (ofout s) (chunks (ofin s) X) ov0)).
Proof. exact xo_call_stream. Qed.

(** what a freshly constructed FftFixedOut delivers, any chunk_size_out and sub_chunks *)
Theorem C05_fft_out_stream_R : forall unit_fn rate_in rate_out chunk sub nch s (c : nat) calls,
  (0 < rate_in)%Z -> (0 < rate_out)%Z -> (1 <= chunk)%Z -> (0 <= nch)%Z -> (c < Z.to_nat nch)%nat ->
  @fft_out_new CR SR rate_in rate_out chunk sub nch = inr (RFftOut s) ->
  (forall w, zlen w = ofin s -> zlen (unit_fn w) = (2 * ofout s)%Z) ->
  xi_live c calls ->
  match xo_stream unit_fn c s [] calls with
  | Ok (s', X', ys) =>
      ys = firstn (length ys) (fst (@canon CR SR unit_fn (ofout s) (chunks (ofin s) X') (@zeros CR SR (ofout s))))
  | Err _ => True
  | Panic _ | UB _ | Diverge => False
  end.
Proof. exact xo_fresh_stream. Qed.

(** SincFixedIn, any chunk size and any set_chunk_size schedule between calls: output frame j of a fresh resampler is
    [sinc_spec] — the inter-branch blend of the FIR branches applied to the input samples around the instant — at
    -(sinc_len/2) + (j+1)/ratio.  The buffer invariant ([sholds]: the first fill+2*sinc_len cells hold exactly the last
    samples of the stream) is preserved by set_chunk_size because the history shift uses the size of the chunk that
    was loaded (current_buffer_fill), not the size requested for the next one. *)
Theorem C05_sinc_in_call_R : forall env (s : @astate CR SR (@SincFixedIn CR)) wi wo (c : nat) (X : Z -> R) (N : Z) w,
  si_wf env s -> a_precheck (@si_arch CR SR env) s wi wo None = Ok tt ->
  sholds s c X N -> nth_error wi c = Some w -> feeds w X N (sC s) ->
  exists s' (n : Z) outs o,
    pib (@si_arch CR SR env) s wi wo None = Ok (s', (sC s, n), outs) /\ si_wf env s' /\ (0 <= n)%Z /\
    sli s' = sli s + IZR n * / sratio s - IZR (sC s) /\ sC s' = sC s /\ sratio s' = sratio s /\ sL s' = sL s /\ snbr s' = snbr s /\
    sholds s' c X (N + sC s) /\
    nth_error outs c = Some o /\ (n <= zlen o)%Z /\
    forall k, (0 <= k < n)%Z -> getz 0 o k = sinc_spec env (sL s) (snbr s) X (IZR N + sli s + IZR (k + 1) * / sratio s).
Proof. exact si_call_stream. Qed.

Theorem C05_sinc_in_stream_R : forall ratio0 maxrel env ilen inbr chunk nch s (c : nat) (X : Z -> R) ops,
  (1 <= chunk)%Z -> (0 <= nch)%Z -> (8 <= ilen)%Z -> nbr_ok (se_type env) inbr -> (c < Z.to_nat nch)%nat ->
  @sinc_in_new CR SR ratio0 maxrel env ilen inbr chunk nch = inr (RSincIn env s) ->
  (forall n, (n < 0)%Z -> X n = 0) ->
  sfed env c X 0 s ops ->
  match si_stream env c s ops with
  | Ok (_, _, ys) => forall j, (0 <= j < zlen ys)%Z ->
                       getz 0 ys j = sinc_spec env ilen inbr X (- IZR (ilen ÷ 2) + IZR (j + 1) * / ratio0)
  | Err _ => True
  | Panic _ | UB _ | Diverge => False
  end.
Proof. exact si_fresh_stream_R. Qed.

(** SincFixedOut: the stream of a fresh resampler is the same sinc specification, for any chunk size and any set_chunk_size
    schedule (every oversampling factor the constructor accepts: the corner where the last window of a chunk reaches one
    cell beyond the filled region, with weight exactly 0, is handled in SincOutStreamR); hence SincFixedIn and SincFixedOut
    write the same frames on their common prefix. *)
Theorem C05_sinc_out_stream_R : forall ratio0 maxrel env ilen inbr chunk nch s (c : nat) (X : Z -> R) ops,
  (1 <= chunk)%Z -> (0 <= nch)%Z -> (8 <= ilen)%Z -> (ilen mod 2 = 0)%Z -> nbr_ok (se_type env) inbr ->
  (c < Z.to_nat nch)%nat ->
  @sinc_out_new CR SR ratio0 maxrel env ilen inbr chunk nch = inr (RSincOut env s) ->
  (forall n, (n < 0)%Z -> X n = 0) ->
  ufed env c X 0 s ops ->
  match so_stream env c s ops with
  | Ok (_, _, ys) => forall j, (0 <= j < zlen ys)%Z ->
                       getR ys j = sinc_spec env ilen inbr X (- IZR (ilen ÷ 2) + IZR (j + 1) * / ratio0)
  | Err _ => True
  | Panic _ | UB _ | Diverge => False
  end.
Proof. exact so_fresh_stream_R. Qed.

Theorem C05_sinc_variant_independent_R : forall ratio0 maxrel1 maxrel2 env ilen inbr chunk1 chunk2 nch1 nch2 s1 s2 (c1 c2 : nat) (X : Z -> R) ops1 ops2,
  (1 <= chunk1)%Z -> (1 <= chunk2)%Z -> (0 <= nch1)%Z -> (0 <= nch2)%Z -> (8 <= ilen)%Z -> (ilen mod 2 = 0)%Z ->
  nbr_ok (se_type env) inbr -> (c1 < Z.to_nat nch1)%nat -> (c2 < Z.to_nat nch2)%nat ->
  @sinc_in_new CR SR ratio0 maxrel1 env ilen inbr chunk1 nch1 = inr (RSincIn env s1) ->
  @sinc_out_new CR SR ratio0 maxrel2 env ilen inbr chunk2 nch2 = inr (RSincOut env s2) ->
  (forall n, (n < 0)%Z -> X n = 0) ->
  sfed env c1 X 0 s1 ops1 -> ufed env c2 X 0 s2 ops2 ->
  forall r1 r2 ys1 ys2, si_stream env c1 s1 ops1 = Ok (r1, ys1) -> so_stream env c2 s2 ops2 = Ok (r2, ys2) ->
  forall j, (0 <= j < zlen ys1)%Z -> (j < zlen ys2)%Z -> getR ys1 j = getR ys2 j.
Proof. exact sinc_variant_independent_R. Qed.

Print Assumptions C05_fast_in_call_R.
Print Assumptions C05_fast_in_stream_R.
Print Assumptions C05_fast_out_stream_R.
Print Assumptions C05_fast_chunk_independent_R.
Print Assumptions C05_fast_variant_independent_R.
Print Assumptions C05_fft_inout_stream.
Print Assumptions C05_fft_in_call_R.
Print Assumptions C05_fft_in_stream_R.
Print Assumptions C05_fft_out_call_R.
Print Assumptions C05_fft_out_stream_R.
Print Assumptions C05_sinc_in_call_R.
Print Assumptions C05_sinc_in_stream_R.
Print Assumptions C05_sinc_out_stream_R.
Print Assumptions C05_sinc_variant_independent_R.
