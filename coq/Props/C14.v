(** C14 — output_delay() reports the true alignment delay of the output stream.
    Statements only (ideal arithmetic).  Proved for the polynomial resamplers; the reported values
    of the other types are characterised; the sinc types are a recorded finding (their streams are
    not delayed by sinc_len*ratio/2).                                                          *)
From Coq Require Import String ZArith Reals List Bool.
From Rubato.Model Require Import Num Reals Base Async.
From Rubato.Gen Require Import FastGen SincGen SynchroGen Summary.
From Rubato.Proofs Require Import StepperR DelayR.
Local Open Scope R_scope.

(** output frame j of a polynomial resampler at constant ratio r is evaluated at input instant
    -4 + (j+1)/r: the constructors start the carried position at -4 ... *)
Theorem C14_fast_initial_position_R : @fi_new_last_index CR = -4 /\ @fo_new_last_index CR = -4.
Proof. exact fast_initial_position. Qed.

Theorem C14_fast_instant_R : forall r j, fast_instant r j = pos_at (-4) (/ r) 0 (S j).
Proof. exact fast_instant_is_pos_at. Qed.

(** ... so an event at input frame n is met at output frame n*r + (4r - 1) ... *)
Theorem C14_fast_true_delay_R : forall r (n : R) j, 0 < r -> (fast_instant r j = n <-> INR j = n * r + (4 * r - 1)).
Proof. exact fast_true_delay. Qed.

(** ... and output_delay() = floor(8*r/2) is within one output frame of 4r - 1. *)
Theorem C14_fast_in_delay_R : forall (st : @FastFixedIn CR), 0 < FastFixedIn_resample_ratio st ->
  Rabs ((4 * FastFixedIn_resample_ratio st - 1) - IZR (@fi_output_delay CR st)) <= 1.
Proof. exact fast_reported_delay_close. Qed.

Theorem C14_fast_out_delay_R : forall (st : @FastFixedOut CR), 0 < FastFixedOut_resample_ratio st ->
  Rabs ((4 * FastFixedOut_resample_ratio st - 1) - IZR (@fo_output_delay CR st)) <= 1.
Proof. exact fast_out_reported_delay_close. Qed.

(** synchronous resamplers: half an output block (the centre of the symmetric filter of
    fft_size_in taps, scaled by the ratio); that the FFT path realises a linear-phase
    convolution with that filter is an assumption on the spectral core (not modelled). *)
Theorem C14_fft_reported_Z : forall (a : FftFixedIn) (b : FftFixedOut) (c : FftFixedInOut),
  (0 <= FftFixedIn_fft_size_out a -> xi_output_delay a = FftFixedIn_fft_size_out a / 2)%Z /\
  (0 <= FftFixedOut_fft_size_out b -> xo_output_delay b = FftFixedOut_fft_size_out b / 2)%Z /\
  (0 <= FftFixedInOut_chunk_size_out c -> xio_output_delay c = FftFixedInOut_chunk_size_out c / 2)%Z.
Proof. exact fft_reported_delay. Qed.

(** sinc resamplers: the reported value is floor(sinc_len*ratio/2).  The measured alignment of
    their output is ~0 frames (known finding sinc-output-delay): the statement "reported = true"
    is NOT proved for them. *)
Theorem C14_sinc_reported_R : forall (st : @SincFixedIn CR),
  0 <= SincFixedIn_resample_ratio st -> (0 <= SincFixedIn_interpolator_len st)%Z ->
  @si_output_delay CR st = Flocq.Core.Raux.Zfloor (IZR (SincFixedIn_interpolator_len st) * SincFixedIn_resample_ratio st / 2).
Proof. exact sinc_reported_delay. Qed.

(** the FFT delay is fft_size_out/2 because the filter built in FftResampler::new is a linear-phase
    sinc of length fft_size_in centred at fft_size_in/2: that construction is modelled by hand (the
    spectral core is an oracle of the model), so its source text is pinned *)
Theorem C14_fft_core_pinned : Rubato.Gen.Summary.src_hash_fft_core = "b42bed0dd611432617a6cd35a406882c"%string.
Proof. reflexivity. Qed.

Print Assumptions C14_fast_true_delay_R.
Print Assumptions C14_fast_in_delay_R.
Print Assumptions C14_fft_reported_Z.
Print Assumptions C14_sinc_reported_R.
