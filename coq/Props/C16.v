(** C16 — Convenience wrappers equal the core call; partial processing equals zero-padding.
    Statements only; proofs in Proofs/WrappersP.v.  The wrappers are generic over any core
    (process_into_buffer + getters), so the theorems hold for all seven types at once.      *)
From Coq Require Import ZArith List Bool.
From Rubato.Model Require Import Num Base Wrappers.
From Rubato.Proofs Require Import WrappersP.
Import ListNotations.
Local Open Scope Z_scope.

Section C16.
Context {C : CNum} {S : SNum C} {X : Type}.
Variable core_pib : X -> list (list snum) -> list (list snum) -> option (list bool) -> res (X * (Z * Z) * list (list snum)).
Variable in_next out_next nch : X -> Z.

(** process() = process_into_buffer on freshly allocated buffers, every channel truncated to the
    returned count; failures are forwarded unchanged. *)
Theorem C16_process_eq : forall x wave_in m,
  w_process core_pib out_next nch x wave_in m =
  match core_pib x wave_in (alloc_out out_next nch x m) m with
  | Ok (x', (_, out_len), outs) => Ok (x', map (fun o => firstn (Z.to_nat out_len) o) outs)
  | Err e => Err e | Panic p => Panic p | UB u => UB u | Diverge => Diverge
  end.
Proof. exact (process_eq core_pib out_next nch). Qed.

(** the buffers it allocates: output_frames_next() zeros for active channels, empty for masked ones *)
Theorem C16_alloc_out : forall x m chan, (chan < Z.to_nat (nch x))%nat ->
  nth chan (alloc_out out_next nch x m) [] = if mask_get m chan then wzeros (out_next x) else [].
Proof. exact (alloc_out_spec out_next nch). Qed.

Theorem C16_partial_none_eq : forall x wave_out m,
  w_partial_into core_pib in_next nch x None wave_out m =
  core_pib x (repeat (wzeros (in_next x)) (Z.to_nat (nch x))) wave_out m.
Proof. exact (partial_none_eq core_pib in_next nch). Qed.

Theorem C16_partial_some_eq : forall x input wave_out m,
  w_partial_into core_pib in_next nch x (Some input) wave_out m =
  core_pib x (pad_channels (in_next x) (repeat (wzeros (in_next x)) (Z.to_nat (nch x))) input) wave_out m.
Proof. exact (partial_some_eq core_pib in_next nch). Qed.

Theorem C16_partial_eq : forall x wave_in m,
  w_partial core_pib in_next out_next nch x wave_in m =
  match w_partial_into core_pib in_next nch x wave_in (alloc_out out_next nch x m) m with
  | Ok (x', (_, out_len), outs) => Ok (x', map (fun o => firstn (Z.to_nat out_len) o) outs)
  | Err e => Err e | Panic p => Panic p | UB u => UB u | Diverge => Diverge
  end.
Proof. exact (partial_eq core_pib in_next out_next nch). Qed.
End C16.

(** the padded input, channel by channel: x ++ zeros up to input_frames_next() for 1 <= |x| *)
Theorem C16_padding : forall (C : CNum) (S : SNum C) frames, 0 <= frames -> forall n input chan, (chan < n)%nat ->
  nth chan (pad_channels frames (repeat (wzeros frames) n) input) [] =
  match nth_error input chan with
  | Some i => if (0 <? Z.min (Z.of_nat (length i)) frames)
              then firstn (Z.to_nat frames) i ++ wzeros (frames - Z.min (Z.of_nat (length i)) frames)
              else []
  | None => wzeros frames
  end.
Proof. intros C S. exact pad_channels_spec. Qed.

Print Assumptions C16_process_eq.
Print Assumptions C16_partial_some_eq.
Print Assumptions C16_partial_eq.
Print Assumptions C16_padding.
