(** C18 — Resamplers are self-contained and deterministic across instances and threads.
    Statements only; proof in Proofs/SystemP.v.  The model of a process with several instances has
    no shared component: that this is faithful is an obligation regenerated from the source on
    every run (the list of items with static / thread-local / interior-mutable / shared storage in
    /repo/src must be exactly the two read-only CPU-feature tables).                        *)
From Coq Require Import List String.
From Rubato.Proofs Require Import SystemP.
From Rubato.Gen Require Import Summary.
Import ListNotations.

(** any interleaving of the calls of several instances (threads, migration at call boundaries):
    what instance i sees and returns is what it sees and returns when run alone *)
Theorem C18_interleaving_projection : forall (St Op Out : Type) (step : St -> Op -> St * Out) sched sts i s,
  nth_error sts i = Some s ->
  nth_error (fst (sys_run step sts sched)) i = Some (fst (run1 step s (proj_ops i sched))) /\
  proj_outs i (snd (sys_run step sts sched)) = snd (run1 step s (proj_ops i sched)).
Proof. intros St Op Out. exact (@interleaving_projection St Op Out). Qed.

(** no shared mutable storage in the crate (regenerated syntactic summary) *)
Theorem C18_no_shared_storage :
  shared_storage_items =
  ["sinc_interpolator/sinc_interpolator_avx.rs:static FEATURES: &[CpuFeature] = &[CpuFeature::Avx, CpuFeature::Fma];"%string;
   "sinc_interpolator/sinc_interpolator_sse.rs:static FEATURES: &[CpuFeature] = &[CpuFeature::Sse3];"%string].
Proof. reflexivity. Qed.

Print Assumptions C18_interleaving_projection.
Print Assumptions C18_no_shared_storage.
