(** C11 — Channels are independent; masked-out channels are skipped and left untouched.
    Statements only; proofs in Proofs/ChannelsP.v (any arithmetic).  process_into_buffer of the
    asynchronous types is: shift every channel's history, load the active channels' input,
    compute the evaluation instants from the control state alone, then per active channel
    interpolate its own buffer at those instants; the synchronous types use a per-channel
    combinator.  Each stage is characterised channel by channel.                          *)
From Coq Require Import ZArith List Bool.
From Rubato.Model Require Import Num Base Validate Async Fft.
From Rubato.Proofs Require Import ChannelsP.
Import ListNotations.

Section C11.
Context {C : CNum} {S : SNum C}.

Theorem C11_shift_per_channel : forall bufs lo hi dst bufs' c b,
  shift_all (S:=S) bufs lo hi dst = Ok bufs' -> nth_error bufs c = Some b ->
  exists b', nth_error bufs' c = Some b' /\ copy_within b lo hi dst = Some b'.
Proof. exact shift_all_nth. Qed.

Theorem C11_fill_per_channel : forall St (A : arch St) st bufs waves mask bufs' c b m,
  fill_all A st bufs waves mask = Ok bufs' -> nth_error bufs c = Some b -> nth_error mask c = Some m ->
  exists b', nth_error bufs' c = Some b' /\
             (if m then exists w, nth_error waves c = Some w /\ fill_channel A st b w = Ok b' else b' = b).
Proof. exact (@fill_all_nth C S). Qed.

(** channel c's output = its own buffer interpolated at the shared instants; a masked channel's
    output buffer comes back exactly as it was passed in (nothing is written) *)
Theorem C11_channel_projection : forall St (A : arch St) st bufs outs mask ps outs' c b o m,
  outputs_all A st bufs outs mask ps = Ok outs' ->
  nth_error bufs c = Some b -> nth_error outs c = Some o -> nth_error mask c = Some m ->
  exists o', nth_error outs' c = Some o' /\
    (if m then exists vals, samples_at (a_sample A st b) ps = Ok vals /\ o' = write_prefix o vals else o' = o).
Proof. exact (@outputs_all_nth C S). Qed.

Theorem C11_masked_untouched : forall St (A : arch St) st bufs outs mask ps outs' c b o,
  outputs_all A st bufs outs mask ps = Ok outs' ->
  nth_error bufs c = Some b -> nth_error outs c = Some o -> nth_error mask c = Some false ->
  nth_error outs' c = Some o.
Proof. exact (@masked_output_untouched C S). Qed.

(** synchronous types: the per-channel combinator applies the block processing to active
    channels and returns inactive ones unchanged *)
Theorem C11_fft_per_channel : forall X (f : X -> res X) xs mask xs' c x m,
  per_channel f xs mask = Ok xs' -> nth_error xs c = Some x -> nth_error mask c = Some m ->
  exists x', nth_error xs' c = Some x' /\ (if m then f x = Ok x' else x' = x).
Proof. exact (@per_channel_nth C). Qed.

(** the instants (hence the returned counts) do not depend on the audio or on the mask: the loop
    sees only the control state; the output capacity enters only as fuel, and more fuel does not
    change a completed loop *)
Theorem C11_instants_data_independent : forall tstep istep cond f1 f2 t inc idx r,
  (f1 <= f2)%nat -> positions_in (C:=C) tstep istep cond f1 t inc idx = Some r ->
  positions_in tstep istep cond f2 t inc idx = Some r.
Proof. exact positions_in_fuel_mono. Qed.
End C11.

(** End to end, every arithmetic (the Flocq instances included), with masks: non-interference between channels.  Two calls
    that agree on the control record, the stored mask, the mask argument and everything belonging to channel c return
    the same control record, counts, new internal buffer of channel c and output slice of channel c -- whatever the other
    channels hold; a masked channel's output slice comes back as it was passed in. *)
From Rubato.Proofs Require Import NonInterfP NonInterfFftP.
From Rubato.Gen Require Import SynchroGen.

Theorem C11_async_noninterference : forall (C : CNum) (S : SNum C) St (A : arch St) (s1 s2 : astate St)
    wi1 wi2 wo1 wo2 m c b o mc s1' s2' cnt1 cnt2 o1 o2,
  as_ctl s1 = as_ctl s2 -> as_mask s1 = as_mask s2 ->
  nth_error (as_buf s1) c = Some b -> nth_error (as_buf s2) c = Some b ->
  nth_error wi1 c = nth_error wi2 c ->
  nth_error wo1 c = Some o -> nth_error wo2 c = Some o ->
  nth_error (eff_mask s1 m) c = Some mc ->
  pib A s1 wi1 wo1 m = Ok (s1', cnt1, o1) -> pib A s2 wi2 wo2 m = Ok (s2', cnt2, o2) ->
  as_ctl s1' = as_ctl s2' /\ cnt1 = cnt2 /\ as_mask s1' = as_mask s2' /\
  exists b' o', nth_error (as_buf s1') c = Some b' /\ nth_error (as_buf s2') c = Some b' /\
                nth_error o1 c = Some o' /\ nth_error o2 c = Some o' /\
                (mc = false -> o' = o).
Proof. intros C S St. exact (@pib_channel_noninterference C S St). Qed.

Theorem C11_fft_in_noninterference : forall (C : CNum) (S : SNum C) unit_fn (s1 s2 : fstate FftFixedIn)
    wi1 wi2 wo1 wo2 m c wic woc ib ov mc s1' s2' c1 c2 o1 o2,
  fs_ctl s1 = fs_ctl s2 -> fs_mask s1 = fs_mask s2 ->
  nth_error (fs_overlaps s1) c = Some ov -> nth_error (fs_overlaps s2) c = Some ov ->
  nth_error (fs_bufs s1) c = Some ib -> nth_error (fs_bufs s2) c = Some ib ->
  nth_error wi1 c = Some wic -> nth_error wi2 c = Some wic ->
  nth_error wo1 c = Some woc -> nth_error wo2 c = Some woc ->
  nth_error (eff_fmask s1 m) c = Some mc ->
  xi_pib unit_fn s1 wi1 wo1 m = Ok (s1', c1, o1) -> xi_pib unit_fn s2 wi2 wo2 m = Ok (s2', c2, o2) ->
  fs_ctl s1' = fs_ctl s2' /\ c1 = c2 /\
  exists ov' ib' o', nth_error (fs_overlaps s1') c = Some ov' /\ nth_error (fs_overlaps s2') c = Some ov' /\
                     nth_error (fs_bufs s1') c = Some ib' /\ nth_error (fs_bufs s2') c = Some ib' /\
                     nth_error o1 c = Some o' /\ nth_error o2 c = Some o' /\ (mc = false -> o' = woc /\ ov' = ov /\ ib' = ib).
Proof. intros C S. exact (@xi_channel_noninterference C S). Qed.

Theorem C11_fft_out_noninterference : forall (C : CNum) (S : SNum C) unit_fn (s1 s2 : fstate FftFixedOut)
    wi1 wi2 wo1 wo2 m c wic woc ob ov mc s1' s2' c1 c2 o1 o2,
  fs_ctl s1 = fs_ctl s2 -> fs_mask s1 = fs_mask s2 ->
  nth_error (fs_overlaps s1) c = Some ov -> nth_error (fs_overlaps s2) c = Some ov ->
  nth_error (fs_bufs s1) c = Some ob -> nth_error (fs_bufs s2) c = Some ob ->
  nth_error wi1 c = Some wic -> nth_error wi2 c = Some wic ->
  nth_error wo1 c = Some woc -> nth_error wo2 c = Some woc ->
  nth_error (eff_fmask s1 m) c = Some mc ->
  xo_pib unit_fn s1 wi1 wo1 m = Ok (s1', c1, o1) -> xo_pib unit_fn s2 wi2 wo2 m = Ok (s2', c2, o2) ->
  fs_ctl s1' = fs_ctl s2' /\ c1 = c2 /\
  exists ov' ob' o', nth_error (fs_overlaps s1') c = Some ov' /\ nth_error (fs_overlaps s2') c = Some ov' /\
                     nth_error (fs_bufs s1') c = Some ob' /\ nth_error (fs_bufs s2') c = Some ob' /\
                     nth_error o1 c = Some o' /\ nth_error o2 c = Some o' /\ (mc = false -> o' = woc /\ ov' = ov /\ ob' = ob).
Proof. intros C S. exact (@xo_channel_noninterference C S). Qed.

Theorem C11_fft_inout_noninterference : forall (C : CNum) (S : SNum C) unit_fn (s1 s2 : fstate FftFixedInOut)
    wi1 wi2 wo1 wo2 m c wic woc ov mc s1' s2' c1 c2 o1 o2,
  fs_ctl s1 = fs_ctl s2 -> fs_mask s1 = fs_mask s2 ->
  nth_error (fs_overlaps s1) c = Some ov -> nth_error (fs_overlaps s2) c = Some ov ->
  nth_error wi1 c = Some wic -> nth_error wi2 c = Some wic ->
  nth_error wo1 c = Some woc -> nth_error wo2 c = Some woc ->
  nth_error (eff_fmask s1 m) c = Some mc ->
  xio_pib unit_fn s1 wi1 wo1 m = Ok (s1', c1, o1) -> xio_pib unit_fn s2 wi2 wo2 m = Ok (s2', c2, o2) ->
  fs_ctl s1' = fs_ctl s2' /\ c1 = c2 /\
  exists ov' o', nth_error (fs_overlaps s1') c = Some ov' /\ nth_error (fs_overlaps s2') c = Some ov' /\
                 nth_error o1 c = Some o' /\ nth_error o2 c = Some o' /\ (mc = false -> o' = woc /\ ov' = ov).
Proof. intros C S. exact (@xio_channel_noninterference C S). Qed.

(** End to end, ideal arithmetic, calls without a mask (corollaries of the stream theorems of C05): channel c of an n-channel
    FastFixedIn / SincFixedIn produces the stream a single-channel resampler produces from channel c's signal. *)
From Coq Require Import Reals.
From Rubato.Model Require Import Reals Resamplers.
From Rubato.Proofs Require Import ContentP FastInR StreamR NearestR SincInR SincStreamR ProjectionR.
Local Open Scope R_scope.

Theorem C11_fast_in_projection_R : forall ratio0 maxrel d chunk nch sN s1 (c : nat) (X : Z -> R) callsN calls1,
  (1 <= chunk)%Z -> (0 <= nch)%Z -> (c < Z.to_nat nch)%nat ->
  @fast_in_new CR SR ratio0 maxrel d chunk nch = inr (RFastIn d sN) ->
  @fast_in_new CR SR ratio0 maxrel d chunk 1 = inr (RFastIn d s1) ->
  (forall n, (n < 0)%Z -> X n = 0) ->
  fed c X 0 chunk callsN -> fed 0 X 0 chunk calls1 ->
  forall rN r1 ysN ys1, fi_stream d c sN callsN = Ok (rN, ysN) -> fi_stream d 0 s1 calls1 = Ok (r1, ys1) ->
  forall j, (0 <= j < zlen ysN)%Z -> (j < zlen ys1)%Z -> getz 0 ysN j = getz 0 ys1 j.
Proof. exact fast_in_projection_R. Qed.

Theorem C11_sinc_in_projection_R : forall ratio0 maxrel env ilen inbr chunk nch sN s1 (c : nat) (X : Z -> R) opsN ops1,
  (1 <= chunk)%Z -> (0 <= nch)%Z -> (8 <= ilen)%Z -> nbr_ok (se_type env) inbr -> (c < Z.to_nat nch)%nat ->
  @sinc_in_new CR SR ratio0 maxrel env ilen inbr chunk nch = inr (RSincIn env sN) ->
  @sinc_in_new CR SR ratio0 maxrel env ilen inbr chunk 1 = inr (RSincIn env s1) ->
  (forall n, (n < 0)%Z -> X n = 0) ->
  sfed env c X 0 sN opsN -> sfed env 0 X 0 s1 ops1 ->
  forall rN r1 ysN ys1, si_stream env c sN opsN = Ok (rN, ysN) -> si_stream env 0 s1 ops1 = Ok (r1, ys1) ->
  forall j, (0 <= j < zlen ysN)%Z -> (j < zlen ys1)%Z -> getz 0 ysN j = getz 0 ys1 j.
Proof. exact sinc_in_projection_R. Qed.

Print Assumptions C11_fast_in_projection_R.
Print Assumptions C11_sinc_in_projection_R.
Print Assumptions C11_channel_projection.
Print Assumptions C11_masked_untouched.
Print Assumptions C11_fft_per_channel.
Print Assumptions C11_instants_data_independent.
Print Assumptions C11_async_noninterference.
Print Assumptions C11_fft_in_noninterference.
Print Assumptions C11_fft_out_noninterference.
Print Assumptions C11_fft_inout_noninterference.
