(** C12 — Ratio and chunk-size controls accept exactly the documented ranges.
    Statements only; proofs in Proofs/RatioBounds.v and Proofs/Setters.v.  The accept
    conditions are the *generated* ones (Gen/FastGen.v, Gen/SincGen.v), evaluated in
    IEEE binary64 (Flocq): every theorem quantifies over all binary64 operands.   *)
From Coq Require Import ZArith Reals Bool List.
From Flocq Require Import Core BinarySingleNaN.
From Rubato.Model Require Import Num Floats Base Async Fft Resamplers Driver.
From Rubato.Gen Require Import FastGen SincGen.
From Rubato.Proofs Require Import RatioBounds Setters.
Local Open Scope R_scope.

(** The documented bounds, computed in binary64 as the documentation writes them. *)
Check lo64 : f64 -> f64 -> f64.     (* original / max *)
Check hi64 : f64 -> f64 -> f64.     (* original * max *)

(** For constructor-accepted parameters the bounds are finite, positive, ordered, and
    are the correctly rounded quotient and product. *)
Theorem C12_bounds_B64 : forall orig maxrel, ctor_ok orig maxrel ->
  let lo := lo64 orig maxrel in let hi := hi64 orig maxrel in
  is_finite lo = true /\ is_finite hi = true /\
  B2R lo = round radix2 (SpecFloat.fexp 53 1024) ZnearestE (B2R orig / B2R maxrel) /\
  B2R hi = round radix2 (SpecFloat.fexp 53 1024) ZnearestE (B2R orig * B2R maxrel) /\
  0 < B2R lo /\ B2R lo <= B2R orig <= B2R hi.
Proof. exact lo_hi_facts. Qed.

(** set_resample_ratio(r): accepted iff r is a finite number with lo <= r <= hi — hence
    NaN, both infinities and every r <= 0 are rejected — for *every* binary64 r. *)
Theorem C12_accept_iff_B64 : forall orig maxrel r, ctor_ok orig maxrel ->
  (accept64 orig maxrel r = true <->
   is_finite r = true /\ B2R (lo64 orig maxrel) <= B2R r <= B2R (hi64 orig maxrel)).
Proof. exact accept64_iff. Qed.

(** The generated accept test of each of the four types is that expression. *)
Theorem C12_accept_sites : forall a b c d r,
  @fi_set_ratio_accept CB a r = accept64 (FastFixedIn_resample_ratio_original a) (FastFixedIn_max_relative_ratio a) r /\
  @fo_set_ratio_accept CB b r = accept64 (FastFixedOut_resample_ratio_original b) (FastFixedOut_max_relative_ratio b) r /\
  @si_set_ratio_accept CB c r = accept64 (SincFixedIn_resample_ratio_original c) (SincFixedIn_max_relative_ratio c) r /\
  @so_set_ratio_accept CB d r = accept64 (SincFixedOut_resample_ratio_original d) (SincFixedOut_max_relative_ratio d) r.
Proof. intros; repeat split. Qed.

(** Model step: Ok on accept; otherwise RatioOutOfBounds(provided, original, max) and
    the state is returned unchanged. *)
Theorem C12_set_ratio_step : forall (S : SNum CB) unit_fn s orig maxrel r ramp,
  ratio_params s = Some (orig, maxrel) ->
  (accept64 orig maxrel r = true -> snd (step unit_fn s (OpSetRatio r ramp)) = OUnit) /\
  (accept64 orig maxrel r = false ->
     step unit_fn s (OpSetRatio r ramp) = (s, OErr (ErrRatioOutOfBounds r orig maxrel))).
Proof. intros S u. exact (step_set_ratio_async u). Qed.

(** set_resample_ratio_relative(x): accepted iff x finite and RN(1/max) <= x <= max; then
    it is set_resample_ratio of the product kept inside [lo, hi] (which always accepts). *)
Theorem C12_relative_iff_B64 : forall maxrel x,
  is_finite maxrel = true -> 1 <= B2R maxrel ->
  (rel_accept64 maxrel x = true <->
   is_finite x = true /\ B2R (inv_max64 maxrel) <= B2R x <= B2R maxrel).
Proof. exact rel_accept64_iff. Qed.

Theorem C12_relative_step : forall (S : SNum CB) unit_fn s orig maxrel x ramp,
  ratio_params s = Some (orig, maxrel) ->
  (rel_accept64 maxrel x = true ->
     step unit_fn s (OpSetRel x ramp) =
     step unit_fn s (OpSetRatio (clamp64 (lo64 orig maxrel) (hi64 orig maxrel) (Bmult mode_NE orig x)) ramp)) /\
  (rel_accept64 maxrel x = false ->
     step unit_fn s (OpSetRel x ramp) = (s, OErr (ErrRatioOutOfBounds (Bmult mode_NE orig x) orig maxrel))).
Proof. intros S u. exact (step_set_rel_async u). Qed.

Theorem C12_clamped_accepted : forall orig maxrel v, ctor_ok orig maxrel ->
  accept64 orig maxrel (clamp64 (lo64 orig maxrel) (hi64 orig maxrel) v) = true.
Proof. exact clamped_accepted. Qed.

(** Synchronous resamplers always answer SyncNotAdjustable, state unchanged. *)
Theorem C12_sync_reject : forall (S : SNum CB) unit_fn s r ramp,
  ratio_params s = None ->
  step unit_fn s (OpSetRatio r ramp) = (s, OErr ErrSyncNotAdjustable) /\
  step unit_fn s (OpSetRel r ramp) = (s, OErr ErrSyncNotAdjustable).
Proof. intros S u. exact (step_set_ratio_sync u). Qed.

(** set_chunk_size: exactly 1..=max on the sinc types (then the next call uses the new
    size), InvalidChunkSize(max, requested) otherwise; ChunkSizeNotAdjustable elsewhere. *)
Theorem C12_chunk_size_iff_Z : forall (S : SNum CB) unit_fn s mx n,
  max_chunk s = Some mx -> (0 <= n)%Z ->
  ((1 <= n <= mx)%Z -> snd (step unit_fn s (OpSetChunk n)) = OUnit /\
       (match fst (step unit_fn s (OpSetChunk n)) with
        | RSincIn _ a => g_in_next (r_getters (fst (step unit_fn s (OpSetChunk n)))) = n
        | RSincOut _ a => g_out_next (r_getters (fst (step unit_fn s (OpSetChunk n)))) = n
        | _ => False end)) /\
  (~ (1 <= n <= mx)%Z -> step unit_fn s (OpSetChunk n) = (s, OErr (ErrInvalidChunkSize mx n))).
Proof. intros S u. exact (step_set_chunk_sinc u). Qed.

Theorem C12_chunk_not_adjustable : forall (S : SNum CB) unit_fn s n,
  max_chunk s = None -> step unit_fn s (OpSetChunk n) = (s, OErr ErrChunkSizeNotAdjustable).
Proof. intros S u. exact (step_set_chunk_other u). Qed.

(** Constructors establish the hypothesis [ctor_ok] used above. *)
Theorem C12_ctor_establishes : forall (S : SNum CB) ratio maxrel d chunk nch s,
  fast_in_new ratio maxrel d chunk nch = inr s -> ratio_params s = Some (ratio, maxrel) /\ ctor_ok ratio maxrel.
Proof. intros S. exact fast_in_new_ok. Qed.

(* non-vacuity: original 0.1, max 10 is accepted by the constructor tests, and the lower
   bound itself (0.1/10, rejected by the pinned upstream code) is accepted. *)
Example C12_nonvacuous :
  let orig := b_lit 53 1024 3602879701896397 (-55) in     (* 0.1 *)
  let maxrel := b_lit 53 1024 5 1 in                      (* 10 *)
  (@fast_validate_ratio_bad CB orig || @fast_validate_maxrel_bad CB maxrel || @fast_validate_range_bad CB maxrel orig = false)
  /\ accept64 orig maxrel (lo64 orig maxrel) = true.
Proof. split; vm_compute; reflexivity. Qed.

Print Assumptions C12_bounds_B64.
Print Assumptions C12_accept_iff_B64.
Print Assumptions C12_set_ratio_step.
Print Assumptions C12_relative_iff_B64.
Print Assumptions C12_relative_step.
Print Assumptions C12_clamped_accepted.
Print Assumptions C12_sync_reject.
Print Assumptions C12_chunk_size_iff_Z.
Print Assumptions C12_chunk_not_adjustable.
