(** C15 — SIMD kernels equal the scalar kernel; CPU dispatch is transparent.
    Statements only; proofs in Proofs/KernelsR.v (ideal arithmetic).  The kernel models carry the
    exact accumulation order of each implementation (8 lanes; fused vs separate multiply-add; the
    five reduction trees) and are compared bit for bit with the real AVX/SSE/scalar kernels.     *)
From Coq Require Import ZArith Reals List Bool Lra.
From Rubato.Model Require Import Num Reals Base Kernels Async.
From Rubato.Proofs Require Import KernelsR KernelErr KernelSim64 KernelSim32.
From Rubato.Proofs Require KernelFin64 KernelFin32.
From Flocq Require Import Core BinarySingleNaN.
From Rubato.Model Require Floats.
Import ListNotations.
Local Open Scope R_scope.

(** every kernel computes the exact dot product, for every length that is a multiple of 8 ... *)
Theorem C15_kernel_sum_R : forall k (w s : list R) n,
  length w = (8 * n)%nat -> length s = (8 * n)%nat -> @kernel CR SR k w s = dot w s.
Proof. exact kernel_is_dot. Qed.

(** ... hence all five agree (they differ only in summation order, i.e. in rounding) *)
Theorem C15_kernels_agree_R : forall k1 k2 (w s : list R) n,
  length w = (8 * n)%nat -> length s = (8 * n)%nat -> @kernel CR SR k1 w s = @kernel CR SR k2 w s.
Proof. exact kernels_agree. Qed.

(** a call that passes the asserts reads exactly the sinc_len samples starting at index *)
Theorem C15_read_set : forall k (sincs : list (list (@snum CR SR))) len nbr (buf : list (@snum CR SR)) index sub v,
  @sinc_point CR SR k sincs len nbr buf index sub = Ok v -> (0 <= index)%Z -> (0 <= sub)%Z ->
  v = @kernel CR SR k (slice buf index (index + len)) (nth (Z.to_nat sub) sincs []) /\
  (index + len < zlen buf)%Z /\ (sub < nbr)%Z.
Proof. exact sinc_point_reads. Qed.

(** ** floating point.  In the standard model of rounded arithmetic (relative error u per operation, absolute error eta
    where the result is subnormal; overflow excluded) every kernel is within
        ((1+u)^(2n+7) - 1) * sum |w_i s_i|  +  (16n+7) (1+u)^(2n+7) eta
    of the exact dot product of its 8n products -- for ANY operations +, *, fma that satisfy the model
    (Proofs/KernelErr.v; the kernel is Model/Kernels.v instantiated with those operations) ... *)
Theorem C15_kernel_error_model : forall (u eta : R) (add' mul' : R -> R -> R) (fma' : R -> R -> R -> R),
  0 <= u -> 0 <= eta ->
  (forall a b, Rabs (add' a b - (a + b)) <= u * Rabs (a + b) + eta) ->
  (forall a b, Rabs (mul' a b - a * b) <= u * Rabs (a * b) + eta) ->
  (forall a b c, Rabs (fma' a b c - (a * b + c)) <= u * Rabs (a * b + c) + eta) ->
  forall kind (w s : list R) n, length w = (8 * n)%nat -> length s = (8 * n)%nat ->
  Rabs (@kernel CR (SE add' mul' fma') kind w s - dot w s)
  <= ((1 + u) ^ (2 * n + 7) - 1) * dot (map Rabs w) (map Rabs s) + INR (16 * n + 7) * (1 + u) ^ (2 * n + 7) * eta.
Proof. exact kernel_error. Qed.

(** ... the bit-exact kernels (Flocq binary64 / binary32 operations, the instances the extracted model runs and the
    implementation is compared with bit for bit) ARE such kernels whenever their result is finite
    (Proofs/KernelSim64.v, KernelSim32.v: a finite result forces finite intermediates, and Flocq's *_correct theorems
    identify each finite operation with the correctly rounded real one) ... *)
Theorem C15_kernel_error_f64 : forall kind (w s : list (binary_float 53 1024)) n,
  length w = (8 * n)%nat -> length s = (8 * n)%nat ->
  is_finite (@kernel Floats.CB Floats.S64 kind w s) = true ->
  let uu := / 2 * bpow radix2 (- 53 + 1) in let ee := / 2 * bpow radix2 (3 - 1024 - 53) in
  Rabs (B2R (@kernel Floats.CB Floats.S64 kind w s) - dot (map B2R w) (map B2R s))
  <= ((1 + uu) ^ (2 * n + 7) - 1) * dot (map Rabs (map B2R w)) (map Rabs (map B2R s)) + INR (16 * n + 7) * (1 + uu) ^ (2 * n + 7) * ee.
Proof. exact KernelSim64.kernel_error_B. Qed.

Theorem C15_kernel_error_f32 : forall kind (w s : list (binary_float 24 128)) n,
  length w = (8 * n)%nat -> length s = (8 * n)%nat ->
  is_finite (@kernel Floats.CB Floats.S32 kind w s) = true ->
  let uu := / 2 * bpow radix2 (- 24 + 1) in let ee := / 2 * bpow radix2 (3 - 128 - 24) in
  Rabs (B2R (@kernel Floats.CB Floats.S32 kind w s) - dot (map B2R w) (map B2R s))
  <= ((1 + uu) ^ (2 * n + 7) - 1) * dot (map Rabs (map B2R w)) (map Rabs (map B2R s)) + INR (16 * n + 7) * (1 + uu) ^ (2 * n + 7) * ee.
Proof. exact KernelSim32.kernel_error_B. Qed.

(** ... so any two kernels (scalar, SSE, AVX; CPU dispatch picks among them) are within twice that bound of each other *)
Theorem C15_kernels_close_f64 : forall k1 k2 (w s : list (binary_float 53 1024)) n,
  length w = (8 * n)%nat -> length s = (8 * n)%nat ->
  is_finite (@kernel Floats.CB Floats.S64 k1 w s) = true -> is_finite (@kernel Floats.CB Floats.S64 k2 w s) = true ->
  let uu := / 2 * bpow radix2 (- 53 + 1) in let ee := / 2 * bpow radix2 (3 - 1024 - 53) in
  Rabs (B2R (@kernel Floats.CB Floats.S64 k1 w s) - B2R (@kernel Floats.CB Floats.S64 k2 w s))
  <= 2 * (((1 + uu) ^ (2 * n + 7) - 1) * dot (map Rabs (map B2R w)) (map Rabs (map B2R s)) + INR (16 * n + 7) * (1 + uu) ^ (2 * n + 7) * ee).
Proof. exact KernelSim64.kernels_close_B. Qed.

Theorem C15_kernels_close_f32 : forall k1 k2 (w s : list (binary_float 24 128)) n,
  length w = (8 * n)%nat -> length s = (8 * n)%nat ->
  is_finite (@kernel Floats.CB Floats.S32 k1 w s) = true -> is_finite (@kernel Floats.CB Floats.S32 k2 w s) = true ->
  let uu := / 2 * bpow radix2 (- 24 + 1) in let ee := / 2 * bpow radix2 (3 - 128 - 24) in
  Rabs (B2R (@kernel Floats.CB Floats.S32 k1 w s) - B2R (@kernel Floats.CB Floats.S32 k2 w s))
  <= 2 * (((1 + uu) ^ (2 * n + 7) - 1) * dot (map Rabs (map B2R w)) (map Rabs (map B2R s)) + INR (16 * n + 7) * (1 + uu) ^ (2 * n + 7) * ee).
Proof. exact KernelSim32.kernels_close_B. Qed.

(** ... and overflow cannot happen for products of magnitude at most 1 and filters of up to 32768 taps (audio samples and
    windowed-sinc coefficients are far inside this range; Proofs/KernelFin64.v, KernelFin32.v prove finiteness from an a-priori
    magnitude bound for any P and n), so there the bound holds with no finiteness hypothesis *)
Theorem C15_kernel_finite_unit_f64 : forall kind (w s : list (binary_float 53 1024)) n,
  (n <= 4096)%nat -> length w = (8 * n)%nat ->
  Forall2 (fun x y => is_finite x = true /\ is_finite y = true /\ Rabs (B2R x * B2R y) <= 1) w s ->
  is_finite (@kernel Floats.CB Floats.S64 kind w s) = true.
Proof. exact KernelFin64.kernel_finite_unit. Qed.

Theorem C15_kernel_finite_unit_f32 : forall kind (w s : list (binary_float 24 128)) n,
  (n <= 4096)%nat -> length w = (8 * n)%nat ->
  Forall2 (fun x y => is_finite x = true /\ is_finite y = true /\ Rabs (B2R x * B2R y) <= 1) w s ->
  is_finite (@kernel Floats.CB Floats.S32 kind w s) = true.
Proof. exact KernelFin32.kernel_finite_unit. Qed.

(* non-vacuity: a finite bit-exact kernel result *)
Theorem C15_finite_example :
  is_finite (@kernel Floats.CB Floats.S64 KAvx64 (map (Floats.b_of_Z 53 1024) [1;2;3;4;5;6;7;8]%Z) (map (Floats.b_of_Z 53 1024) [1;1;1;1;1;1;1;1]%Z)) = true.
Proof. vm_compute. reflexivity. Qed.

Example C15_example : @kernel CR SR KAvx64 [1;2;3;4;5;6;7;8] [1;1;1;1;1;1;1;1] = 36.
Proof. rewrite (kernel_is_dot _ _ _ 1%nat) by reflexivity. cbn [dot]. lra. Qed.

Print Assumptions C15_kernel_sum_R.
Print Assumptions C15_kernels_agree_R.
Print Assumptions C15_read_set.
Print Assumptions C15_kernel_error_model.
Print Assumptions C15_kernel_error_f64.
Print Assumptions C15_kernel_error_f32.
Print Assumptions C15_kernels_close_f64.
Print Assumptions C15_kernels_close_f32.
Print Assumptions C15_kernel_finite_unit_f64.
Print Assumptions C15_kernel_finite_unit_f32.
