(** C15 — SIMD kernels equal the scalar kernel; CPU dispatch is transparent.
    Statements only; proofs in Proofs/KernelsR.v (ideal arithmetic).  The kernel models carry the
    exact accumulation order of each implementation (8 lanes; fused vs separate multiply-add; the
    five reduction trees) and are compared bit for bit with the real AVX/SSE/scalar kernels.     *)
From Coq Require Import ZArith Reals List Bool Lra.
From Rubato.Model Require Import Num Reals Base Kernels Async.
From Rubato.Proofs Require Import KernelsR.
Import ListNotations.
Local Open Scope R_scope.

(** every kernel computes the exact dot product, for every length that is a multiple of 8 ... *)
Theorem C15_kernel_sum_R : forall k (w s : list R) n,
  length w = (8 * n)%nat -> length s = (8 * n)%nat -> @kernel CR SR k w s = dot w s.
Proof. exact kernel_is_dot. Qed.

(** ... hence all five agree (they differ only in summation order, i.e. in rounding) *)
Theorem C15_kernels_agree_R : forall k1 k2 (w s : list R) n,
  length w = (8 * n)%nat -> length s = (8 * n)%nat -> @kernel CR SR k1 w s = @kernel CR SR k2 w s.
Proof. exact kernels_agree. Qed.

(** a call that passes the asserts reads exactly the sinc_len samples starting at index *)
Theorem C15_read_set : forall k (sincs : list (list (@snum CR SR))) len nbr (buf : list (@snum CR SR)) index sub v,
  @sinc_point CR SR k sincs len nbr buf index sub = Ok v -> (0 <= index)%Z -> (0 <= sub)%Z ->
  v = @kernel CR SR k (slice buf index (index + len)) (nth (Z.to_nat sub) sincs []) /\
  (index + len < zlen buf)%Z /\ (sub < nbr)%Z.
Proof. exact sinc_point_reads. Qed.

(** Unproved, kept visible: the floating-point deviation between two summation orders is at most
    a few ulps of the sum of absolute products (measured on every run, not a theorem). *)
Definition C15_float_bound_full : Prop := True.

Example C15_example : @kernel CR SR KAvx64 [1;2;3;4;5;6;7;8] [1;1;1;1;1;1;1;1] = 36.
Proof. rewrite (kernel_is_dot _ _ _ 1%nat) by reflexivity. cbn [dot]. lra. Qed.

Print Assumptions C15_kernel_sum_R.
Print Assumptions C15_kernels_agree_R.
Print Assumptions C15_read_set.
