(** C17 — f32 and f64 instantiations agree to single precision and in all frame counts.
    Statements only; proofs in Proofs/CtlP.v.  Proved: the control half (identical
    input_frames_next/output_frames_next sequences and returned counts): the new control record and
    the counts of a successful process_into_buffer are a function of the old control record and
    of buffer *lengths*; no sample value and no sample type enters them.  The closeness of the
    sample values (f32 output = f64 output rounded, within a small multiple of eps) is measured on
    every run and not proved.                                                               *)
From Coq Require Import ZArith List Bool.
From Rubato.Model Require Import Num Base Validate Async.
From Rubato.Proofs Require Import CtlP.

Theorem C17_control_function_of_ctl : forall (C : CNum) (S : SNum C) St (A : arch St) s wi wo m s' c o,
  pib A s wi wo m = Ok (s', c, o) ->
  ctl_result A (as_ctl s) (map zlen wo) (as_mask s') = Some (as_ctl s', c).
Proof. intros C S St. exact (@pib_control C S St). Qed.

Theorem C17_control_independent_of_T : forall (C : CNum) (S1 S2 : SNum C) St (A1 : @arch C S1 St) (A2 : @arch C S2 St),
  (forall st lens mask, @ctl_result C S1 St A1 st lens mask = @ctl_result C S2 St A2 st lens mask) ->
  forall s1 s2 wi1 wo1 wi2 wo2 m1 m2 s1' s2' c1 c2 o1 o2,
  @as_ctl C S1 St s1 = @as_ctl C S2 St s2 -> map zlen wo1 = map zlen wo2 ->
  @as_mask C S1 St s1' = @as_mask C S2 St s2' ->
  @pib C S1 St A1 s1 wi1 wo1 m1 = Ok (s1', c1, o1) ->
  @pib C S2 St A2 s2 wi2 wo2 m2 = Ok (s2', c2, o2) ->
  @as_ctl C S1 St s1' = @as_ctl C S2 St s2' /\ c1 = c2.
Proof. exact @control_independent_of_sample_type. Qed.

(** the hypothesis holds for the four asynchronous types, whatever the two sample types *)
Theorem C17_async_types : forall (C : CNum) (S1 S2 : SNum C),
  (forall d st lens mask, @ctl_result C S1 _ (@fi_arch C S1 d) st lens mask = @ctl_result C S2 _ (@fi_arch C S2 d) st lens mask) /\
  (forall d st lens mask, @ctl_result C S1 _ (@fo_arch C S1 d) st lens mask = @ctl_result C S2 _ (@fo_arch C S2 d) st lens mask) /\
  (forall e1 e2 st lens mask, se_type e1 = se_type e2 ->
     @ctl_result C S1 _ (@si_arch C S1 e1) st lens mask = @ctl_result C S2 _ (@si_arch C S2 e2) st lens mask) /\
  (forall e1 e2 st lens mask, se_type e1 = se_type e2 ->
     @ctl_result C S1 _ (@so_arch C S1 e1) st lens mask = @ctl_result C S2 _ (@so_arch C S2 e2) st lens mask).
Proof.
  intros C S1 S2. split; [|split; [|split]].
  - intros. apply fi_ctl_same.
  - intros. apply fo_ctl_same.
  - intros. apply si_ctl_same; assumption.
  - intros. apply so_ctl_same; assumption.
Qed.

Print Assumptions C17_control_function_of_ctl.
Print Assumptions C17_control_independent_of_T.
Print Assumptions C17_async_types.
