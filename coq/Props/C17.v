(** C17 — f32 and f64 instantiations agree to single precision and in all frame counts.
    Statements only; proofs in Proofs/CtlP.v, Proofs/CtlFftP.v.  Proved: the control half (identical
    input_frames_next/output_frames_next sequences and returned counts): the new control record and
    the counts of a successful process_into_buffer are a function of the old control record and
    of buffer *lengths*; no sample value and no sample type enters them.  The closeness of the
    sample values (f32 output = f64 output rounded, within a small multiple of eps) is measured on
    every run; proved for one output sample of a sinc resampler given its operands (kernel level,
    C17_kernel_f32_f64_close), not for a whole resampler (tables, FFT).                     *)
From Coq Require Import ZArith List Bool.
From Rubato.Model Require Import Num Base Validate Async.
From Rubato.Model Require Import Fft.
From Rubato.Gen Require Import SynchroGen.
From Rubato.Proofs Require Import CtlP CtlFftP.

Theorem C17_control_function_of_ctl : forall (C : CNum) (S : SNum C) St (A : arch St) s wi wo m s' c o,
  pib A s wi wo m = Ok (s', c, o) ->
  ctl_result A (as_ctl s) (map zlen wo) (as_mask s') = Some (as_ctl s', c).
Proof. intros C S St. exact (@pib_control C S St). Qed.

Theorem C17_control_independent_of_T : forall (C : CNum) (S1 S2 : SNum C) St (A1 : @arch C S1 St) (A2 : @arch C S2 St),
  (forall st lens mask, @ctl_result C S1 St A1 st lens mask = @ctl_result C S2 St A2 st lens mask) ->
  forall s1 s2 wi1 wo1 wi2 wo2 m1 m2 s1' s2' c1 c2 o1 o2,
  @as_ctl C S1 St s1 = @as_ctl C S2 St s2 -> map zlen wo1 = map zlen wo2 ->
  @as_mask C S1 St s1' = @as_mask C S2 St s2' ->
  @pib C S1 St A1 s1 wi1 wo1 m1 = Ok (s1', c1, o1) ->
  @pib C S2 St A2 s2 wi2 wo2 m2 = Ok (s2', c2, o2) ->
  @as_ctl C S1 St s1' = @as_ctl C S2 St s2' /\ c1 = c2.
Proof. exact @control_independent_of_sample_type. Qed.

(** the hypothesis holds for the four asynchronous types, whatever the two sample types *)
Theorem C17_async_types : forall (C : CNum) (S1 S2 : SNum C),
  (forall d st lens mask, @ctl_result C S1 _ (@fi_arch C S1 d) st lens mask = @ctl_result C S2 _ (@fi_arch C S2 d) st lens mask) /\
  (forall d st lens mask, @ctl_result C S1 _ (@fo_arch C S1 d) st lens mask = @ctl_result C S2 _ (@fo_arch C S2 d) st lens mask) /\
  (forall e1 e2 st lens mask, se_type e1 = se_type e2 ->
     @ctl_result C S1 _ (@si_arch C S1 e1) st lens mask = @ctl_result C S2 _ (@si_arch C S2 e2) st lens mask) /\
  (forall e1 e2 st lens mask, se_type e1 = se_type e2 ->
     @ctl_result C S1 _ (@so_arch C S1 e1) st lens mask = @ctl_result C S2 _ (@so_arch C S2 e2) st lens mask).
Proof.
  intros C S1 S2. split; [|split; [|split]].
  - intros. apply fi_ctl_same.
  - intros. apply fo_ctl_same.
  - intros. apply si_ctl_same; assumption.
  - intros. apply so_ctl_same; assumption.
Qed.

(** the three synchronous types: the new control record and the counts are a function of the old control record alone
    ([xi_ctl_next], [xo_ctl_next], [xio_ctl_next] mention neither the sample type nor the spectral core), so two
    instantiations that start from equal control records return the same counts for ever *)
Theorem C17_fft_control_function_of_ctl : forall (C : CNum) (S : SNum C) u,
  (forall (s : @fstate C S FftFixedIn) wi wo m s' c o, xi_pib u s wi wo m = Ok (s', c, o) -> (fs_ctl s', c) = xi_ctl_next (fs_ctl s)) /\
  (forall (s : @fstate C S FftFixedOut) wi wo m s' c o, xo_pib u s wi wo m = Ok (s', c, o) -> (fs_ctl s', c) = xo_ctl_next (fs_ctl s)) /\
  (forall (s : @fstate C S FftFixedInOut) wi wo m s' c o, xio_pib u s wi wo m = Ok (s', c, o) -> (fs_ctl s', c) = xio_ctl_next (fs_ctl s)).
Proof. intros C S u. split; [|split]; [exact (@xi_pib_ctl C S u) | exact (@xo_pib_ctl C S u) | exact (@xio_pib_ctl C S u)]. Qed.

Theorem C17_fft_control_independent_of_T : forall (C : CNum) (S1 S2 : SNum C) u1 u2,
  (forall (s1 : @fstate C S1 FftFixedIn) (s2 : @fstate C S2 FftFixedIn) wi1 wo1 m1 wi2 wo2 m2 s1' s2' c1 c2 o1 o2,
     fs_ctl s1 = fs_ctl s2 ->
     @xi_pib C S1 u1 s1 wi1 wo1 m1 = Ok (s1', c1, o1) -> @xi_pib C S2 u2 s2 wi2 wo2 m2 = Ok (s2', c2, o2) ->
     fs_ctl s1' = fs_ctl s2' /\ c1 = c2) /\
  (forall (s1 : @fstate C S1 FftFixedOut) (s2 : @fstate C S2 FftFixedOut) wi1 wo1 m1 wi2 wo2 m2 s1' s2' c1 c2 o1 o2,
     fs_ctl s1 = fs_ctl s2 ->
     @xo_pib C S1 u1 s1 wi1 wo1 m1 = Ok (s1', c1, o1) -> @xo_pib C S2 u2 s2 wi2 wo2 m2 = Ok (s2', c2, o2) ->
     fs_ctl s1' = fs_ctl s2' /\ c1 = c2) /\
  (forall (s1 : @fstate C S1 FftFixedInOut) (s2 : @fstate C S2 FftFixedInOut) wi1 wo1 m1 wi2 wo2 m2 s1' s2' c1 c2 o1 o2,
     fs_ctl s1 = fs_ctl s2 ->
     @xio_pib C S1 u1 s1 wi1 wo1 m1 = Ok (s1', c1, o1) -> @xio_pib C S2 u2 s2 wi2 wo2 m2 = Ok (s2', c2, o2) ->
     fs_ctl s1' = fs_ctl s2' /\ c1 = c2).
Proof. exact fft_control_independent_of_sample_type. Qed.

(** The numerical half at the level of one output sample of a sinc resampler (one dot product of 8n taps): the binary32
    kernel on binary32 operands against the binary64 kernel on binary64 operands, finite results.  E is the rounding-error
    bound of C15 for the format; dot_diff is the effect of the operand differences on the exact dot product. *)
From Coq Require Import Reals.
From Flocq Require Import Core BinarySingleNaN.
From Rubato.Model Require Floats.
From Rubato.Model Require Import Kernels.
From Rubato.Proofs Require Import KernelsR KernelMix.

Theorem C17_kernel_f32_f64_close : forall k32 k64 (w32 s32 : list (binary_float 24 128)) (w64 s64 : list (binary_float 53 1024)) n,
  length w32 = (8 * n)%nat -> length s32 = (8 * n)%nat -> length w64 = (8 * n)%nat -> length s64 = (8 * n)%nat ->
  is_finite (@kernel Floats.CB Floats.S32 k32 w32 s32) = true -> is_finite (@kernel Floats.CB Floats.S64 k64 w64 s64) = true ->
  (Rabs (B2R (@kernel Floats.CB Floats.S32 k32 w32 s32) - B2R (@kernel Floats.CB Floats.S64 k64 w64 s64))
   <= E (/ 2 * bpow radix2 (- 24 + 1)) (/ 2 * bpow radix2 (3 - 128 - 24)) n (dot (map Rabs (map B2R w32)) (map Rabs (map B2R s32)))
    + E (/ 2 * bpow radix2 (- 53 + 1)) (/ 2 * bpow radix2 (3 - 1024 - 53)) n (dot (map Rabs (map B2R w64)) (map Rabs (map B2R s64)))
    + dot_diff (map B2R w32) (map B2R s32) (map B2R w64) (map B2R s64))%R.
Proof. exact kernel_f32_f64_close. Qed.

Print Assumptions C17_control_function_of_ctl.
Print Assumptions C17_control_independent_of_T.
Print Assumptions C17_async_types.
Print Assumptions C17_fft_control_function_of_ctl.
Print Assumptions C17_fft_control_independent_of_T.
Print Assumptions C17_kernel_f32_f64_close.
