(** C07 — Frame accounting: output/input frame totals track the ratio without drift.
    Statements only.  Ideal arithmetic; proved here for the polynomial resamplers
    (FastFixedIn, FastFixedOut) over every history of valid calls at constant ratio.          *)
From Coq Require Import ZArith Reals List Bool.
From Rubato.Model Require Import Num Reals Base Async Resamplers.
From Rubato.Gen Require Import FastGen.
From Rubato.Proofs Require Import MalformedP FastInR FastOutR FastCtorR SincInR SincOutR FftInOutP FftInR FftOutR.
From Rubato.Model Require Import Fft.
From Rubato.Gen Require Import SynchroGen.
From Rubato.Gen Require Import SincGen.
Import ListNotations.
Local Open Scope R_scope.

(** Telescoping identity: over any sequence of valid calls the carried position moves by
    nout/r - nin; no call panics or leaves its buffers (see C03). *)
Theorem C07_fast_in_telescope_R : forall d calls (s : @astate CR SR (@FastFixedIn CR)), fi_wf s ->
  match fi_run d s calls with
  | Ok (s', nin, nout) =>
      fi_wf s' /\ FastInR.ratio s' = FastInR.ratio s /\ (0 <= nin)%Z /\ (0 <= nout)%Z /\
      li s' - li s = IZR nout * / FastInR.ratio s - IZR nin
  | Err _ => True
  | Panic _ | UB _ | Diverge => False
  end.
Proof. exact fi_history_const_R. Qed.

Theorem C07_fast_out_telescope_R : forall d blen calls (s : @astate CR SR (@FastFixedOut CR)), fo_wf blen s ->
  match fo_run d s calls with
  | Ok (s', nin, nout) =>
      fo_wf blen s' /\ oratio s' = oratio s /\ (0 <= nin)%Z /\ (0 <= nout)%Z /\
      oli s' - oli s = IZR nout * / oratio s - IZR nin
  | Err _ => True
  | Panic _ | UB _ | Diverge => False
  end.
Proof. exact fo_history_const_R. Qed.

(** Hence the totals differ from the ratio by at most the property's constant
    r*(filter length + 1/r + 3) + 3 (filter length 8), whatever the number of calls. *)
Theorem C07_fast_in_bound_R : forall d calls (s s' : @astate CR SR (@FastFixedIn CR)) nin nout,
  fi_wf s -> fi_run d s calls = Ok (s', nin, nout) ->
  Rabs (IZR nout - FastInR.ratio s * IZR nin) <= FastInR.ratio s * (8 + / FastInR.ratio s + 3) + 3.
Proof. exact fi_accounting_const_R. Qed.

Theorem C07_fast_out_bound_R : forall d blen calls (s s' : @astate CR SR (@FastFixedOut CR)) nin nout,
  fo_wf blen s -> fo_run d s calls = Ok (s', nin, nout) ->
  Rabs (IZR nout - oratio s * IZR nin) <= oratio s * (8 + / oratio s + 3) + 3.
Proof. exact fo_accounting_const_R. Qed.

(** SincFixedIn, any set_chunk_size schedule: the property's constant with filter length sinc_len. *)
Theorem C07_sinc_in_bound_R : forall env ops (s s' : @astate CR SR (@SincFixedIn CR)) nin nout,
  si_wf env s -> (forall n, In (SChunk n) ops -> (0 <= n)%Z) -> si_run env s ops = Ok (s', nin, nout) ->
  Rabs (IZR nout - sratio s * IZR nin) <= sratio s * (IZR (sL s) + / sratio s + 3) + 3.
Proof. exact si_accounting_const_R. Qed.

(** SincFixedOut, any set_chunk_size schedule: |nout - r*nin| <= r*(sinc_len + 1) *)
Theorem C07_sinc_out_bound_R : forall env blen ops (s s' : @astate CR SR (@SincFixedOut CR)) nin nout,
  so_wf env blen s -> (forall n, In (OChunk n) ops -> (0 <= n)%Z) -> so_run env s ops = Ok (s', nin, nout) ->
  Rabs (IZR nout - uratio s * IZR nin) <= uratio s * (IZR (uL s) + 1).
Proof. exact so_accounting_const_R. Qed.

(** FFT resamplers: the block sizes are in the exact ratio of the two rates (the C03_ctor_fft theorems), and over every history
    the totals differ from that ratio by less than one block: no drift.  FftFixedInOut is exact. *)
Theorem C07_fft_in_bound_R : forall unit_fn calls (s s' : @fstate CR SR FftFixedIn) nin nout,
  xi_wf unit_fn s -> xi_run unit_fn s calls = Ok (s', nin, nout) ->
  (Z.abs (nout * ifin s - ifout s * nin) < ifout s * ifin s)%Z.
Proof. exact xi_accounting. Qed.

Theorem C07_fft_out_bound_R : forall unit_fn calls (s s' : @fstate CR SR FftFixedOut) nin nout,
  xo_wf unit_fn s -> xo_run unit_fn s calls = Ok (s', nin, nout) ->
  (Z.abs (nin * ofout s - ofin s * nout) < ofin s * ofout s)%Z.
Proof. exact xo_accounting. Qed.

Theorem C07_fft_inout_exact : forall (C : CNum) (S : SNum C) unit_fn calls (s s' : @fstate C S FftFixedInOut) nin nout,
  xio_wf unit_fn s -> xio_run unit_fn s calls = Ok (s', nin, nout) -> (nout * xfin s = nin * xfout s)%Z.
Proof. intros C S. exact (@xio_exact C S). Qed.

(** The hypotheses are met by every constructed resampler. *)
Theorem C07_ctor_fast_in_R : forall ratio maxrel d chunk nch s, (1 <= chunk)%Z -> (0 <= nch)%Z ->
  @fast_in_new CR SR ratio maxrel d chunk nch = inr (RFastIn d s) -> fi_wf s /\ ratio = FastInR.ratio s.
Proof. exact fi_ctor_wf_R. Qed.

Theorem C07_ctor_fast_out_R : forall ratio maxrel d chunk nch s, (1 <= chunk)%Z -> (0 <= nch)%Z ->
  @fast_out_new CR SR ratio maxrel d chunk nch = inr (RFastOut d s) -> exists blen, fo_wf blen s /\ ratio = oratio s.
Proof. exact fo_ctor_wf_R. Qed.

Print Assumptions C07_fast_in_telescope_R.
Print Assumptions C07_fast_out_telescope_R.
Print Assumptions C07_fast_in_bound_R.
Print Assumptions C07_fast_out_bound_R.
Print Assumptions C07_ctor_fast_out_R.
Print Assumptions C07_sinc_in_bound_R.
Print Assumptions C07_sinc_out_bound_R.
Print Assumptions C07_fft_in_bound_R.
Print Assumptions C07_fft_out_bound_R.
Print Assumptions C07_fft_inout_exact.
