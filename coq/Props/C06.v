(** C06 — Ratio changes produce a continuous, forward-only time warp.
    Statements only; proofs in Proofs/StepperR.v and Proofs/RampsR.v (ideal arithmetic, on the
    generated formulas of all four asynchronous types).                                       *)
From Coq Require Import ZArith Reals List Bool Lra.
From Flocq Require Import Core.
From Rubato.Model Require Import Num Reals Base Async.
From Rubato.Gen Require Import FastGen SincGen.
From Rubato.Proofs Require Import StepperR RampsR MalformedP FastInR SincInR FastOutR SincOutR.
Import ListNotations.
Local Open Scope R_scope.

(** The evaluation instants of one call have the closed form idx + k*t + inc*k(k+1)/2 ... *)
Theorem C06_instants_fixed_out_R : forall n (t inc idx : R),
  @positions_out CR Rplus Rplus n t inc idx = (map (pos_at idx t inc) (seq 1 n), pos_at idx t inc n).
Proof. exact positions_out_spec. Qed.

Theorem C06_instants_fixed_in_R : forall (E : R) fuel (t inc idx : R) (ps : list R) (last : R),
  @positions_in CR Rplus Rplus (fun i => Rlt_bool i E) fuel t inc idx = Some (ps, last) ->
  let n := @length R ps in
  ps = map (pos_at idx t inc) (seq 1 n) /\ last = pos_at idx t inc n /\
  (forall k, (k < n)%nat -> pos_at idx t inc k < E) /\ E <= last /\ (n <= fuel)%nat.
Proof. exact positions_in_spec. Qed.

(** ... the loops of all four types are these loops (step += increment; idx += step) ... *)
Theorem C06_loop_ops_R :
  (forall d st t i, a_tstep (@fi_arch CR SR d) st t i = t + i /\ a_istep (@fi_arch CR SR d) st t i = t + i) /\
  (forall d st t i, a_tstep (@fo_arch CR SR d) st t i = t + i /\ a_istep (@fo_arch CR SR d) st t i = t + i) /\
  (forall e st t i, a_tstep (@si_arch CR SR e) st t i = t + i /\ a_istep (@si_arch CR SR e) st t i = t + i) /\
  (forall e st t i, a_tstep (@so_arch CR SR e) st t i = t + i /\ a_istep (@so_arch CR SR e) st t i = t + i).
Proof. exact loop_ops_R. Qed.

(** ... so the spacing of frame k is t + k*inc, with the increment of each type being
    (1/target - 1/ratio)/A, A = chunk*mean(ratio,target) (fixed input) or chunk (fixed output). *)
Theorem C06_spacing_R : forall idx t inc k, pos_at idx t inc (S k) - pos_at idx t inc k = t + INR (S k) * inc.
Proof. exact pos_at_step. Qed.

Theorem C06_increment_fixed_in_R : forall (a : @FastFixedIn CR) (b : @SincFixedIn CR),
  (0 < FastFixedIn_resample_ratio a -> 0 < FastFixedIn_target_ratio a -> (1 <= FastFixedIn_chunk_size a)%Z ->
   @fi_t_ratio_increment CR a (@fi_approximate_nbr_frames CR a) (@fi_t_ratio CR a) (@fi_t_ratio_end CR a) =
   (/ FastFixedIn_target_ratio a - / FastFixedIn_resample_ratio a) /
   (IZR (FastFixedIn_chunk_size a) * ((FastFixedIn_resample_ratio a + FastFixedIn_target_ratio a) / 2))) /\
  (0 < SincFixedIn_resample_ratio b -> 0 < SincFixedIn_target_ratio b -> (1 <= SincFixedIn_chunk_size b)%Z ->
   @si_t_ratio_increment CR b (@si_approximate_nbr_frames CR b) (@si_t_ratio CR b) (@si_t_ratio_end CR b) =
   (/ SincFixedIn_target_ratio b - / SincFixedIn_resample_ratio b) /
   (IZR (SincFixedIn_chunk_size b) * ((SincFixedIn_resample_ratio b + SincFixedIn_target_ratio b) / 2))).
Proof. intros a b. split; [apply fi_increment_R | apply si_increment_R]. Qed.

Theorem C06_increment_fixed_out_R : forall (a : @FastFixedOut CR) (b : @SincFixedOut CR),
  (0 < FastFixedOut_resample_ratio a -> 0 < FastFixedOut_target_ratio a -> (1 <= FastFixedOut_chunk_size a)%Z ->
   @fo_t_ratio_increment CR a (@fo_t_ratio CR a) (@fo_t_ratio_end CR a) =
   (/ FastFixedOut_target_ratio a - / FastFixedOut_resample_ratio a) / IZR (FastFixedOut_chunk_size a)) /\
  (0 < SincFixedOut_resample_ratio b -> 0 < SincFixedOut_target_ratio b -> (1 <= SincFixedOut_chunk_size b)%Z ->
   @so_t_ratio_increment CR b (@so_t_ratio CR b) (@so_t_ratio_end CR b) =
   (/ SincFixedOut_target_ratio b - / SincFixedOut_resample_ratio b) / IZR (SincFixedOut_chunk_size b)).
Proof. intros a b. split; [apply fo_increment_R | apply so_increment_R]. Qed.

(** Non-ramped change: the new spacing from the first frame (step_k t t A k = t). *)
Theorem C06_step_immediate_R : forall t0 A k, step_k t0 t0 A k = t0.
Proof. exact step_no_ramp. Qed.

(** Ramped change: for every frame k <= A the spacing lies between the old and the new one,
    moves monotonically from old to new, is positive, and is exactly the new one at k = A. *)
Theorem C06_ramp_interval_R : forall t0 tend A k, 0 < A -> INR k <= A ->
  Rmin t0 tend <= step_k t0 tend A k <= Rmax t0 tend.
Proof. exact step_between. Qed.

Theorem C06_ramp_monotone_R : forall t0 tend A k, 0 < A ->
  (t0 <= tend -> step_k t0 tend A k <= step_k t0 tend A (S k)) /\
  (tend <= t0 -> step_k t0 tend A (S k) <= step_k t0 tend A k).
Proof. exact step_monotone. Qed.

Theorem C06_steps_positive_R : forall t0 tend A k, 0 < A -> INR k <= A -> 0 < t0 -> 0 < tend -> 0 < step_k t0 tend A k.
Proof. exact step_positive. Qed.

Theorem C06_ramp_reaches_target_R : forall t0 tend A n, 0 < A -> INR n = A -> step_k t0 tend A n = tend.
Proof. exact step_exact_end. Qed.

(** From the chunk after: the ratio in use is the target (so the spacing is 1/new, no increment). *)
Theorem C06_after_ramp_R :
  (forall d st idx, FastFixedIn_resample_ratio (a_finish (@fi_arch CR SR d) st idx) = FastFixedIn_target_ratio st /\
                    FastFixedIn_target_ratio (a_finish (@fi_arch CR SR d) st idx) = FastFixedIn_target_ratio st) /\
  (forall d st idx, FastFixedOut_resample_ratio (a_finish (@fo_arch CR SR d) st idx) = FastFixedOut_target_ratio st /\
                    FastFixedOut_target_ratio (a_finish (@fo_arch CR SR d) st idx) = FastFixedOut_target_ratio st) /\
  (forall e st idx, SincFixedIn_resample_ratio (a_finish (@si_arch CR SR e) st idx) = SincFixedIn_target_ratio st /\
                    SincFixedIn_target_ratio (a_finish (@si_arch CR SR e) st idx) = SincFixedIn_target_ratio st) /\
  (forall e st idx, SincFixedOut_resample_ratio (a_finish (@so_arch CR SR e) st idx) = SincFixedOut_target_ratio st /\
                    SincFixedOut_target_ratio (a_finish (@so_arch CR SR e) st idx) = SincFixedOut_target_ratio st).
Proof. exact finish_sets_ratio_R. Qed.

(** Kept visible, not proved: a fixed-input ramp keeps adding the increment after frame A
    (the loop stops on position, not on count), where the spacing leaves [old, new]; and the
    fixed-output types request chunk/mean(ratio) input frames for a ramp that needs the sum of the
    spacings.  Both are recorded as known findings (classes ramp-overrun, fixedout-ramp). *)
Definition C06_full_fixed_in : Prop :=
  forall t0 tend A k, 0 < A -> 0 < t0 -> 0 < tend -> Rmin t0 tend <= step_k t0 tend A k <= Rmax t0 tend.

Lemma C06_full_fixed_in_refuted : ~ C06_full_fixed_in.
Proof.
  intros H. specialize (H 1 (1/2) 1 3%nat ltac:(lra) ltac:(lra) ltac:(lra)).
  unfold step_k, Rmin, Rmax in H. cbn [INR] in H. destruct (Rle_dec 1 (1/2)); lra.
Qed.

(** A non-ramped change takes effect from the first frame of the next chunk and nothing is skipped or repeated
    (FastFixedIn, every degree): after an accepted step to a compatible ratio (outside the two recorded defect
    classes) the call evaluates exactly n frames, spaced 1/new from the first one, and the carried position is
    exactly  old position + n/new - chunk_size  -- the next call continues where this one stopped. *)
Theorem C06_fast_in_step_call_R : forall d rc (s : @astate CR SR (@FastFixedIn CR)) wi wo m,
  fi_wfs d rc s -> a_precheck (@fi_arch CR SR d) s wi wo m = Ok tt ->
  exists (s' : @astate CR SR (@FastFixedIn CR)) (n : Z) outs,
    pib (@fi_arch CR SR d) s wi wo m = Ok (s', (Cz s, n), outs) /\ fi_wf s' /\
    (0 <= n <= @fi_needed_len CR (as_ctl s))%Z /\
    li s' = li s + IZR n * / FastInR.ratio s - IZR (Cz s) /\
    Cz s' = Cz s /\ nchz s' = nchz s /\ FastInR.ratio s' = FastInR.ratio s.
Proof. exact fi_call_step_R. Qed.

Theorem C06_sinc_in_step_call_R : forall env rc (s : @astate CR SR (@SincFixedIn CR)) wi wo m,
  si_wfs env rc s -> a_precheck (@si_arch CR SR env) s wi wo m = Ok tt ->
  exists (s' : @astate CR SR (@SincFixedIn CR)) (n : Z) outs,
    pib (@si_arch CR SR env) s wi wo m = Ok (s', (sC s, n), outs) /\ si_wf env s' /\
    (0 <= n <= @si_calc_needed_len CR (as_ctl s))%Z /\
    sli s' = sli s + IZR n * / sratio s - IZR (sC s) /\
    sC s' = sC s /\ sCmax s' = sCmax s /\ sratio s' = sratio s /\ sL s' = sL s.
Proof. exact si_call_step_R. Qed.

(** the fixed-output types after ANY accepted non-ramped change: exactly chunk_size frames spaced 1/new from the first
    one; the carried position is  old + chunk/new - consumed  -- nothing skipped or repeated across the boundary *)
Theorem C06_fast_out_step_call_R : forall d blen (s : @astate CR SR (@FastFixedOut CR)) wi wo m,
  fo_wfe blen s -> a_precheck (@fo_arch CR SR d) s wi wo m = Ok tt ->
  exists (s' : @astate CR SR (@FastFixedOut CR)) outs,
    pib (@fo_arch CR SR d) s wi wo m = Ok (s', (oneeded s, oC s), outs) /\ fo_wfe blen s' /\
    oli s' = oli s + IZR (oC s) * / oratio s - IZR (oneeded s) /\
    oC s' = oC s /\ oratio s' = oratio s /\ (0 <= oneeded s)%Z.
Proof. exact fo_call_wfe_R. Qed.
Theorem C06_sinc_out_step_call_R : forall env blen (s : @astate CR SR (@SincFixedOut CR)) wi wo m,
  so_wfe env blen s -> a_precheck (@so_arch CR SR env) s wi wo m = Ok tt ->
  exists (s' : @astate CR SR (@SincFixedOut CR)) outs,
    pib (@so_arch CR SR env) s wi wo m = Ok (s', (uneeded s, uC s), outs) /\ so_wfe env blen s' /\
    uli s' = uli s + IZR (uC s) * / uratio s - IZR (uneeded s) /\
    uC s' = uC s /\ uCmax s' = uCmax s /\ uratio s' = uratio s /\ uL s' = uL s /\ (0 <= uneeded s)%Z.
Proof. exact so_call_wfe_R. Qed.

Print Assumptions C06_instants_fixed_in_R.
Print Assumptions C06_fast_out_step_call_R.
Print Assumptions C06_sinc_out_step_call_R.
Print Assumptions C06_sinc_in_step_call_R.
Print Assumptions C06_fast_in_step_call_R.
Print Assumptions C06_increment_fixed_in_R.
Print Assumptions C06_ramp_interval_R.
Print Assumptions C06_ramp_monotone_R.
Print Assumptions C06_after_ramp_R.
