(** C09 — Real-time safety: process_into_buffer never touches the heap.
    Statements only.  What a theorem can carry here is the logic: (i) no internal buffer ever
    needs to grow — every processing call returns buffers of exactly the lengths it received
    (Proofs/ResetP.v, asynchronous types) and every access lies inside them (C03); (ii) the
    bodies of the monitored functions contain no allocation-capable construct (a syntactic summary
    regenerated from /repo/src on every run, `log` feature off).  The allocator itself is observed
    by a counting global allocator on every sampled call.                                    *)
From Coq Require Import ZArith List Bool String.
From Rubato.Model Require Import Num Base Async Resamplers.
From Rubato.Proofs Require Import ResetP.
From Rubato.Gen Require Import Summary.
Import ListNotations.

Theorem C09_shape_invariant : forall (C : CNum) (S : SNum C) St (A : arch St) s wi wo m s' c o,
  pib A s wi wo m = Ok (s', c, o) ->
  map (@List.length snum) (as_buf s') = map (@List.length snum) (as_buf s).
Proof. intros C S St A s wi wo m s' c o H. exact (proj1 (pib_shape A s wi wo m s' c o H)). Qed.

Theorem C09_no_alloc_constructs : alloc_constructs_in_monitored = [].
Proof. reflexivity. Qed.

Print Assumptions C09_shape_invariant.
Print Assumptions C09_no_alloc_constructs.
