(** C09 — Real-time safety: process_into_buffer never touches the heap.
    Statements only.  What a theorem can carry here is the logic: (i) no internal buffer ever
    needs to grow — every processing call returns buffers of exactly the lengths it received
    (Proofs/ResetP.v, asynchronous types) and every access lies inside them (C03); (ii) the
    bodies of the monitored functions contain no allocation-capable construct (a syntactic summary
    regenerated from /repo/src on every run, `log` feature off).  The allocator itself is observed
    by a counting global allocator on every sampled call.                                    *)
From Coq Require Import ZArith List Bool String.
From Rubato.Model Require Import Num Base Async Resamplers.
From Rubato.Model Require Import Fft.
From Rubato.Gen Require Import SynchroGen.
From Rubato.Proofs Require Import ResetP ShapeFftP.
From Rubato.Gen Require Import Summary.
Import ListNotations.

Theorem C09_shape_invariant : forall (C : CNum) (S : SNum C) St (A : arch St) s wi wo m s' c o,
  pib A s wi wo m = Ok (s', c, o) ->
  map (@List.length snum) (as_buf s') = map (@List.length snum) (as_buf s).
Proof. intros C S St A s wi wo m s' c o H. exact (proj1 (pib_shape A s wi wo m s' c o H)). Qed.

(** the synchronous resamplers, any arithmetic, any spectral core: overlap buffers, internal input / output buffers and the
    caller's output slices keep their lengths through every successful call *)
Theorem C09_fft_in_shape_invariant : forall (C : CNum) (S : SNum C) unit_fn (s : fstate FftFixedIn) wi wo m s' c o,
  (1 <= FftFixedIn_fft_size_out (fs_ctl s))%Z ->
  List.length (fs_overlaps s) = Z.to_nat (xi_val_channels (fs_ctl s)) ->
  List.length (fs_bufs s) = Z.to_nat (xi_val_channels (fs_ctl s)) ->
  xi_pib unit_fn s wi wo m = Ok (s', c, o) ->
  map (@List.length snum) (fs_overlaps s') = map (@List.length snum) (fs_overlaps s) /\
  map (@List.length snum) (fs_bufs s') = map (@List.length snum) (fs_bufs s) /\
  map (@List.length snum) o = map (@List.length snum) wo /\ List.length (fs_mask s') = Z.to_nat (xi_val_channels (fs_ctl s)).
Proof. intros C S. exact (@xi_pib_shape C S). Qed.
Theorem C09_fft_out_shape_invariant : forall (C : CNum) (S : SNum C) unit_fn (s : fstate FftFixedOut) wi wo m s' c o,
  (1 <= FftFixedOut_fft_size_out (fs_ctl s))%Z ->
  List.length (fs_overlaps s) = Z.to_nat (xo_val_channels (fs_ctl s)) ->
  List.length (fs_bufs s) = Z.to_nat (xo_val_channels (fs_ctl s)) ->
  xo_pib unit_fn s wi wo m = Ok (s', c, o) ->
  map (@List.length snum) (fs_overlaps s') = map (@List.length snum) (fs_overlaps s) /\
  map (@List.length snum) (fs_bufs s') = map (@List.length snum) (fs_bufs s) /\
  map (@List.length snum) o = map (@List.length snum) wo /\ List.length (fs_mask s') = Z.to_nat (xo_val_channels (fs_ctl s)).
Proof. intros C S. exact (@xo_pib_shape C S). Qed.
Theorem C09_fft_inout_shape_invariant : forall (C : CNum) (S : SNum C) unit_fn (s : fstate FftFixedInOut) wi wo m s' c o,
  (0 <= FftFixedInOut_chunk_size_out (fs_ctl s))%Z ->
  List.length (fs_overlaps s) = Z.to_nat (xio_val_channels (fs_ctl s)) ->
  xio_pib unit_fn s wi wo m = Ok (s', c, o) ->
  map (@List.length snum) (fs_overlaps s') = map (@List.length snum) (fs_overlaps s) /\ fs_bufs s' = fs_bufs s /\
  map (@List.length snum) o = map (@List.length snum) wo /\ List.length (fs_mask s') = Z.to_nat (xio_val_channels (fs_ctl s)).
Proof. intros C S. exact (@xio_pib_shape C S). Qed.

Theorem C09_no_alloc_constructs : alloc_constructs_in_monitored = [].
Proof. reflexivity. Qed.

Print Assumptions C09_shape_invariant.
Print Assumptions C09_no_alloc_constructs.
Print Assumptions C09_fft_in_shape_invariant.
Print Assumptions C09_fft_out_shape_invariant.
Print Assumptions C09_fft_inout_shape_invariant.
