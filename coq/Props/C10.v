(** C10 — reset() returns the resampler to its freshly-constructed behaviour.
    Statements only; proofs in Proofs/ResetP.v, Proofs/ShapeFftP.v.  They hold in every arithmetic (in particular in
    the bit-exact binary64/binary32 instance): only the shape of the state matters.  The reset and
    constructor formulas are regenerated from source, so "reset writes the constructor's value
    into every mutable field" is re-checked against the code on every run.                        *)
From Coq Require Import ZArith List Bool.
From Rubato.Model Require Import Num Base Async Fft Resamplers Driver.
From Rubato.Gen Require Import SynchroGen.
From Rubato.Proofs Require Import ResetP ShapeFftP.
Import ListNotations.

Section C10.
Context {C : CNum} {S : SNum C}.

(** reset() of a freshly constructed resampler changes nothing: every field, every buffer, the mask *)
Theorem C10_reset_fresh_fast_in : forall ratio maxrel d chunk nch s, fast_in_new ratio maxrel d chunk nch = inr s -> r_reset s = s.
Proof. exact reset_fresh_fast_in. Qed.
Theorem C10_reset_fresh_fast_out : forall ratio maxrel d chunk nch s, fast_out_new ratio maxrel d chunk nch = inr s -> r_reset s = s.
Proof. exact reset_fresh_fast_out. Qed.
Theorem C10_reset_fresh_sinc_in : forall ratio maxrel env ilen inbr chunk nch s, sinc_in_new ratio maxrel env ilen inbr chunk nch = inr s -> r_reset s = s.
Proof. exact reset_fresh_sinc_in. Qed.
Theorem C10_reset_fresh_sinc_out : forall ratio maxrel env ilen inbr chunk nch s, sinc_out_new ratio maxrel env ilen inbr chunk nch = inr s -> r_reset s = s.
Proof. exact reset_fresh_sinc_out. Qed.
Theorem C10_reset_fresh_fft_in : forall rin rout chunk sub nch s, fft_in_new rin rout chunk sub nch = inr s -> r_reset s = s.
Proof. exact reset_fresh_fft_in. Qed.
Theorem C10_reset_fresh_fft_out : forall rin rout chunk sub nch s, fft_out_new rin rout chunk sub nch = inr s -> r_reset s = s.
Proof. exact reset_fresh_fft_out. Qed.
Theorem C10_reset_fresh_fft_inout : forall rin rout chunk nch s, fft_inout_new rin rout chunk nch = inr s -> r_reset s = s.
Proof. exact reset_fresh_fft_inout. Qed.

(** reset() after an operation = reset() before it: ratio changes (accepted or rejected, ramped or
    not), chunk-size changes, reset itself ... *)
Theorem C10_reset_after_set_ratio : forall r x ramp, r_reset (fst (r_set_ratio r x ramp)) = r_reset r.
Proof. exact reset_after_set_ratio. Qed.
Theorem C10_reset_after_set_rel : forall r x ramp, r_reset (fst (r_set_rel r x ramp)) = r_reset r.
Proof. exact reset_after_set_rel. Qed.
Theorem C10_reset_after_set_chunk : forall r n, r_reset (fst (r_set_chunk r n)) = r_reset r.
Proof. exact reset_after_set_chunk. Qed.
Theorem C10_reset_idempotent : forall r, r_reset (r_reset r) = r_reset r.
Proof. exact reset_idempotent. Qed.

(** ... and any successful process_into_buffer of an asynchronous resampler (masked or not). By
    induction over the history, reset() after any history = reset() of the fresh state = the fresh
    state; what follows is then the same function of the same state. *)
Theorem C10_reset_after_pib_async : forall unit_fn r wi wo m r' c o,
  match r with RFftIn _ | RFftOut _ | RFftInOut _ => False | _ => True end ->
  mask_inv r -> r_pib unit_fn r wi wo m = Ok (r', c, o) -> r_reset r' = r_reset r /\ mask_inv r'.
Proof. exact reset_after_pib_async. Qed.

(** ... and any successful process_into_buffer of a synchronous resampler, for ANY spectral core: the call returns overlap and
    internal buffers of exactly the lengths it received (resample_unit itself checks the length of the tail it keeps), and
    changes only saved_frames / frames_needed of the control record, which reset() overwrites.  [fft_wf] says: as many
    overlap buffers, internal buffers and mask entries as channels, fft_size_out >= 1 (established by the constructors:
    FftInR.xi_ctor, FftOutR.xo_ctor, FftInOutP.xio_ctor; preserved by every call, below). *)
Theorem C10_reset_after_pib_fft : forall unit_fn r wi wo m r' c o,
  fft_wf r -> r_pib unit_fn r wi wo m = Ok (r', c, o) -> r_reset r' = r_reset r /\ fft_wf r'.
Proof. exact reset_after_pib_fft. Qed.
End C10.

Print Assumptions C10_reset_fresh_sinc_out.
Print Assumptions C10_reset_fresh_fft_out.
Print Assumptions C10_reset_after_set_rel.
Print Assumptions C10_reset_after_pib_async.
Print Assumptions C10_reset_after_pib_fft.
