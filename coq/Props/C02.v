(** C02 — Unrepresentable content is rejected (anti-aliasing / anti-imaging stopband).
    PARTIAL.  What is proved: the cutoff handed to the table generator by the public constructors
    is f_cutoff when ratio >= 1 and f_cutoff * ratio when downsampling (generated from
    make_interpolator; stated over R and over binary32/binary64), and the padded sinc length is the
    next multiple of 8.  The source regions that realise the filter itself (windows.rs: window
    functions, squared variants, calculate_cutoff; sinc.rs: make_sincs; the FftResampler core with
    its cutoff and filter spectrum) are pinned by hash: a change there invalidates this theorem and
    sends the check to its stopband probes for a failing input.  What is NOT proved: the stopband
    attenuation figures (41..138 dB, 100 dB for FFT) and the -6 dB point: transcendental functions
    over a continuum; measured on every run (tools/props.py run_C02).                        *)
From Coq Require Import ZArith Reals List String.
From Flocq Require Import Core BinarySingleNaN.
From Rubato.Model Require Import Num Reals Floats.
From Rubato.Gen Require Import SincGen Summary.
From Rubato.Proofs Require Import FilterR.
Local Open Scope R_scope.

Theorem C02_cutoff_scaling_R : forall fc r : R, @mi_f_cutoff CR fc r = if Rle_bool 1 r then fc else fc * r.
Proof. exact mi_f_cutoff_R. Qed.

(** the same decision in the floating-point instance: compare in binary64, multiply in binary32 *)
Theorem C02_cutoff_scaling_B : forall (fc : @c32 CB) (r : @cnum CB),
  @mi_f_cutoff CB fc r = if @cleb CB (@c_lit CB 1 0 1 1) r then fc else @mul32 CB fc (@to32 CB r).
Proof. intros. reflexivity. Qed.

(** the public constructors hand their own resample_ratio (not a bound of the adjustable range, not
    a derived value) to make_interpolator: the anti-aliasing cutoff is designed for the ratio the
    resampler starts with (regenerated from SincFixedIn::new / SincFixedOut::new) *)
Theorem C02_ctor_ratio_to_table : forall C (r : @cnum C), @si_new_mi_ratio C r = r /\ @so_new_mi_ratio C r = r.
Proof. intros. split; reflexivity. Qed.

Theorem C02_source_regions :
  src_hash_windows_rs = "e55e5fc09b4710ef3e62fea2b571dedf"%string /\
  src_hash_sinc_rs = "836f229828bb0600c659cb0ef072f0bb"%string /\
  src_hash_fft_core = "b42bed0dd611432617a6cd35a406882c"%string.
Proof. repeat split; reflexivity. Qed.

Print Assumptions C02_cutoff_scaling_R.
Print Assumptions C02_cutoff_scaling_B.
Print Assumptions C02_ctor_ratio_to_table.
Print Assumptions C02_source_regions.
