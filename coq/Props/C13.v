(** C13 — Malformed arguments yield the matching Err, never a panic, and change nothing.
    Statements only; proofs in Proofs/ValidateP.v, Proofs/MalformedP.v, Proofs/CtorsP.v.   *)
From Coq Require Import ZArith Reals List Bool.
From Flocq Require Import Core BinarySingleNaN.
From Rubato.Model Require Import Num Floats Base Validate Async Fft Resamplers Driver.
From Rubato.Proofs Require Import ValidateP MalformedP CtorsP.
Import ListNotations.
Local Open Scope Z_scope.

(** validate_buffers: Ok exactly when every clause of the contract holds ... *)
Theorem C13_validate_ok_iff_Z : forall (C : CNum) il ol mask ch mi mo,
  @validate_buffers C il ol mask ch mi mo = Ok tt <->
  (zlen il = ch /\ zlen mask = ch /\ all_long il mask mi /\ zlen ol = ch /\ all_long ol mask mo).
Proof. intros C. exact validate_ok_iff. Qed.

(** ... otherwise the first violated clause in source order, with expected and actual sizes. *)
Theorem C13_validate_first_error_Z : forall (C : CNum) il ol mask ch mi mo e,
  @validate_buffers C il ol mask ch mi mo = Err e ->
  (e = ErrWrongNumberOfInputChannels ch (zlen il) /\ zlen il <> ch) \/
  (e = ErrWrongNumberOfMaskChannels ch (zlen mask) /\ zlen il = ch /\ zlen mask <> ch) \/
  (exists c a, e = ErrInsufficientInputBufferSize c mi a /\ zlen il = ch /\ zlen mask = ch /\
               nth_error il (Z.to_nat c) = Some a /\ nth_error mask (Z.to_nat c) = Some true /\ a < mi /\ 0 <= c /\
               (forall k a', (k < Z.to_nat c)%nat -> nth_error il k = Some a' -> nth_error mask k = Some true -> mi <= a')) \/
  (e = ErrWrongNumberOfOutputChannels ch (zlen ol) /\ zlen il = ch /\ zlen mask = ch /\ all_long il mask mi /\ zlen ol <> ch) \/
  (exists c a, e = ErrInsufficientOutputBufferSize c mo a /\ zlen il = ch /\ zlen mask = ch /\ all_long il mask mi /\ zlen ol = ch /\
               nth_error ol (Z.to_nat c) = Some a /\ nth_error mask (Z.to_nat c) = Some true /\ a < mo /\ 0 <= c /\
               (forall k a', (k < Z.to_nat c)%nat -> nth_error ol k = Some a' -> nth_error mask k = Some true -> mo <= a')).
Proof. intros C. exact validate_err_cases. Qed.

Theorem C13_validate_total_Z : forall (C : CNum) il ol mask ch mi mo,
  @validate_buffers C il ol mask ch mi mo = Ok tt \/ exists e, @validate_buffers C il ol mask ch mi mo = Err e.
Proof. intros C. exact validate_total. Qed.

(** process_into_buffer of every one of the seven types returns Err e exactly when the argument
    check (mask length first, then validate_buffers with the type's required sizes) returns Err e. *)
Theorem C13_pib_err_iff : forall (C : CNum) (S : SNum C) unit_fn r wi wo m e,
  r_pib unit_fn r wi wo m = Err e <-> r_precheck r wi wo m = Err e.
Proof. intros C S. exact r_pib_err_iff. Qed.

(** A malformed call: the matching Err and the resampler is exactly as it was. *)
Theorem C13_err_state_equal : forall (C : CNum) (S : SNum C) unit_fn r wi wo m e,
  r_precheck r wi wo m = Err e -> step unit_fn r (OpPib wi wo m) = (r, OErr e).
Proof. intros C S. exact step_pib_malformed. Qed.

(** No spurious Err on a well-formed call. *)
Theorem C13_no_spurious_err : forall (C : CNum) (S : SNum C) unit_fn r wi wo m,
  r_precheck r wi wo m = Ok tt -> forall e, snd (step unit_fn r (OpPib wi wo m)) <> OErr e.
Proof. intros C S. exact step_pib_wellformed. Qed.

(** Constructors: documented errors for non-positive / non-finite ratios, max < 1, zero rates. *)
Theorem C13_ctor_invalid_ratio_B64 : forall (S : SNum CB) ratio maxrel d chunk nch,
  ~ (is_finite ratio = true /\ (0 < B2R ratio)%R) ->
  fast_in_new ratio maxrel d chunk nch = inl (CErrInvalidRatio ratio) /\
  fast_out_new ratio maxrel d chunk nch = inl (CErrInvalidRatio ratio).
Proof. intros S ratio maxrel d chunk nch H. split; [apply fast_in_new_invalid_ratio | apply fast_out_new_invalid_ratio]; exact H. Qed.

Theorem C13_ctor_invalid_ratio_sinc_B64 : forall (S : SNum CB) ratio maxrel env ilen inbr chunk nch,
  ~ (is_finite ratio = true /\ (0 < B2R ratio)%R) ->
  sinc_in_new ratio maxrel env ilen inbr chunk nch = inl (CErrInvalidRatio ratio) /\
  sinc_out_new ratio maxrel env ilen inbr chunk nch = inl (CErrInvalidRatio ratio).
Proof. intros S ratio maxrel env ilen inbr chunk nch H. split; [apply sinc_in_new_invalid_ratio | apply sinc_out_new_invalid_ratio]; exact H. Qed.

Theorem C13_ctor_invalid_maxrel_B64 : forall (S : SNum CB) ratio maxrel d chunk nch,
  (is_finite ratio = true /\ (0 < B2R ratio)%R) -> ~ (is_finite maxrel = true /\ (1 <= B2R maxrel)%R) ->
  fast_in_new ratio maxrel d chunk nch = inl (CErrInvalidRelativeRatio maxrel).
Proof. intros S. exact fast_in_new_invalid_maxrel. Qed.

Theorem C13_ctor_zero_rate_Z : forall (C : CNum) (S : SNum C) rate_in rate_out chunk sub nch,
  (rate_in = 0 \/ rate_out = 0) ->
  fft_in_new rate_in rate_out chunk sub nch = inl (CErrInvalidSampleRate rate_in rate_out) /\
  fft_out_new rate_in rate_out chunk sub nch = inl (CErrInvalidSampleRate rate_in rate_out) /\
  fft_inout_new rate_in rate_out chunk nch = inl (CErrInvalidSampleRate rate_in rate_out).
Proof.
  intros C S rate_in rate_out chunk sub nch H.
  unfold fft_in_new, fft_out_new, fft_inout_new, SynchroGen.syn_validate_rates_bad.
  assert (E : ((rate_in =? 0) || (rate_out =? 0)) = true)
    by (apply orb_true_iff; destruct H as [->| ->]; [left|right]; reflexivity).
  rewrite E. repeat split.
Qed.

(* non-vacuity: a mask of the wrong length on a 2-channel call *)
Example C13_example : @validate_buffers CB [4; 4] [8; 8] [true] 2 4 8 = Err (ErrWrongNumberOfMaskChannels 2 1).
Proof. reflexivity. Qed.

Print Assumptions C13_validate_ok_iff_Z.
Print Assumptions C13_validate_first_error_Z.
Print Assumptions C13_pib_err_iff.
Print Assumptions C13_err_state_equal.
Print Assumptions C13_no_spurious_err.
Print Assumptions C13_ctor_invalid_ratio_B64.
Print Assumptions C13_ctor_zero_rate_Z.
