(** C03 — No UB, out-of-bounds access, panic or spurious error on any valid call history.
    Statements only.  Proved here, in ideal arithmetic, for the polynomial resamplers (the ones
    that index without bounds checks): every valid process_into_buffer call at constant ratio
    returns Ok — in the model a read or write outside a buffer is the outcome UB, a failed slice
    operation is Panic, an exhausted loop is Diverge, so "Ok" excludes all of them — and keeps
    the invariant, hence every history of such calls is safe.  No spurious Err for all seven
    types is C13_no_spurious_err.                                                            *)
From Coq Require Import ZArith Reals List Bool.
From Rubato.Model Require Import Num Reals Base Validate Async Resamplers.
From Rubato.Model Require Floats Driver.
From Rubato.Gen Require Import FastGen.
From Rubato.Proofs Require Import MalformedP EngineP FastInR FastOutR FastCtorR SincInR SincOutR SincCtorR FftInOutP FftInR FftOutR.
From Rubato.Model Require Import Fft.
From Rubato.Gen Require Import SynchroGen.
From Rubato.Gen Require Import SincGen.
Import ListNotations.
Local Open Scope R_scope.

Theorem C03_fast_in_call_safe_R : forall d (s : @astate CR SR (@FastFixedIn CR)) wi wo m,
  fi_wf s -> a_precheck (@fi_arch CR SR d) s wi wo m = Ok tt ->
  exists (s' : @astate CR SR (@FastFixedIn CR)) (n : Z) outs,
    pib (@fi_arch CR SR d) s wi wo m = Ok (s', (Cz s, n), outs) /\ fi_wf s' /\
    (0 <= n <= @fi_needed_len CR (as_ctl s))%Z /\
    li s' = li s + IZR n * / FastInR.ratio s - IZR (Cz s) /\
    Cz s' = Cz s /\ nchz s' = nchz s /\ FastInR.ratio s' = FastInR.ratio s.
Proof. exact fi_call_const_R. Qed.

Theorem C03_fast_out_call_safe_R : forall d blen (s : @astate CR SR (@FastFixedOut CR)) wi wo m,
  fo_wf blen s -> a_precheck (@fo_arch CR SR d) s wi wo m = Ok tt ->
  exists (s' : @astate CR SR (@FastFixedOut CR)) outs,
    pib (@fo_arch CR SR d) s wi wo m = Ok (s', (oneeded s, oC s), outs) /\ fo_wf blen s' /\
    oli s' = oli s + IZR (oC s) * / oratio s - IZR (oneeded s) /\
    oC s' = oC s /\ onch s' = onch s /\ oratio s' = oratio s /\ (0 <= oneeded s)%Z.
Proof. exact fo_call_const_R. Qed.

(** every history: never Panic / UB / Diverge; an Err only from a malformed call *)
Theorem C03_fast_in_run_safe_R : forall d calls (s : @astate CR SR (@FastFixedIn CR)), fi_wf s ->
  match fi_run d s calls with
  | Ok (s', nin, nout) => fi_wf s' /\ FastInR.ratio s' = FastInR.ratio s /\ (0 <= nin)%Z /\ (0 <= nout)%Z /\
                          li s' - li s = IZR nout * / FastInR.ratio s - IZR nin
  | Err _ => True
  | Panic _ | UB _ | Diverge => False
  end.
Proof. exact fi_history_const_R. Qed.

Theorem C03_fast_out_run_safe_R : forall d blen calls (s : @astate CR SR (@FastFixedOut CR)), fo_wf blen s ->
  match fo_run d s calls with
  | Ok (s', nin, nout) => fo_wf blen s' /\ oratio s' = oratio s /\ (0 <= nin)%Z /\ (0 <= nout)%Z /\
                          oli s' - oli s = IZR nout * / oratio s - IZR nin
  | Err _ => True
  | Panic _ | UB _ | Diverge => False
  end.
Proof. exact fo_history_const_R. Qed.

(** the invariants hold for every constructed resampler (chunk >= 1) *)
Theorem C03_ctor_fast_in_R : forall ratio maxrel d chunk nch s, (1 <= chunk)%Z -> (0 <= nch)%Z ->
  @fast_in_new CR SR ratio maxrel d chunk nch = inr (RFastIn d s) -> fi_wf s /\ ratio = FastInR.ratio s.
Proof. exact fi_ctor_wf_R. Qed.
Theorem C03_ctor_fast_out_R : forall ratio maxrel d chunk nch s, (1 <= chunk)%Z -> (0 <= nch)%Z ->
  @fast_out_new CR SR ratio maxrel d chunk nch = inr (RFastOut d s) -> exists blen, fo_wf blen s /\ ratio = oratio s.
Proof. exact fo_ctor_wf_R. Qed.

(** Non-ramped ratio changes between the calls (FastFixedIn).  [step_compatible rc r2] says that the new ratio [r2] is
    compatible with the ratio [rc] in force during the last call: it is the exact complement of the two recorded
    defect classes of known_findings.json (preroll-underflow: ceil(1/rc) - 1/r2 > 6 - reach; count-overrun:
    (ceil(1/rc) - ceil(1/r2)) * r2 > 8).  Every history of valid calls and accepted, compatible ratio steps is safe,
    consumes chunk_size frames per call and writes at most output_frames_next() frames. *)
Theorem C03_fast_in_steps_safe_R : forall d ops rc (s : @astate CR SR (@FastFixedIn CR)),
  fi_wfs d rc s -> steps_compatible d rc (FastInR.ratio s) ops ->
  match fi_run_ops d s ops with
  | Ok (s', log) => (exists rc', fi_wfs d rc' s') /\ Cz s' = Cz s /\ Forall (call_ok (Cz s)) log
  | Err _ => True
  | Panic _ | UB _ | Diverge => False
  end.
Proof. exact fi_history_steps_R. Qed.

(* the hypotheses are met by every constructed resampler, and by genuine ratio changes in both directions *)
Theorem C03_fast_in_steps_start_R : forall d (s : @astate CR SR (@FastFixedIn CR)), fi_wf s -> fi_wfs d (FastInR.ratio s) s.
Proof. exact fi_wf_wfs. Qed.
Theorem C03_step_up_compatible : step_compatible Septic 1 2.
Proof. exact step_up_example. Qed.
Theorem C03_step_down_compatible : step_compatible Septic 1 (/ 2).
Proof. exact step_down_example. Qed.

(** SincFixedIn (any interpolation type whose oversampling factor supports it, any kernel, any table):
    a valid call at constant ratio satisfies every assert of get_sinc_interpolated and every
    bounds check, keeps the invariant; so does every history of calls and set_chunk_size. *)
Theorem C03_sinc_in_call_safe_R : forall env (s : @astate CR SR (@SincFixedIn CR)) wi wo m,
  si_wf env s -> a_precheck (@si_arch CR SR env) s wi wo m = Ok tt ->
  exists (s' : @astate CR SR (@SincFixedIn CR)) (n : Z) outs,
    pib (@si_arch CR SR env) s wi wo m = Ok (s', (sC s, n), outs) /\
    (0 <= n <= @si_calc_needed_len CR (as_ctl s))%Z /\
    sli s' = sli s + IZR n * / sratio s - IZR (sC s) /\
    sC s' = sC s /\ sCmax s' = sCmax s /\ snch s' = snch s /\ sratio s' = sratio s /\ sL s' = sL s /\ snbr s' = snbr s /\
    SincFixedIn_target_ratio (as_ctl s') = sratio s /\ sfill s' = sC s /\
    length (as_buf s') = length (as_buf s) /\ length (as_mask s') = Z.to_nat (snch s) /\
    all_len (sCmax s + 2 * sL s) (as_buf s') /\
    - IZR (sL s + 1) - IZR (Flocq.Core.Raux.Zceil (/ sratio s)) <= sli s' <= -4.
Proof. exact si_call_const_R. Qed.

Theorem C03_sinc_in_run_safe_R : forall env ops (s : @astate CR SR (@SincFixedIn CR)), si_wf env s ->
  (forall n, In (SChunk n) ops -> (0 <= n)%Z) ->
  match si_run env s ops with
  | Ok (s', nin, nout) => si_wf env s' /\ sratio s' = sratio s /\ (0 <= nin)%Z /\ (0 <= nout)%Z /\
                          sli s' - sli s = IZR nout * / sratio s - IZR nin
  | Err _ => True
  | Panic _ | UB _ | Diverge => False
  end.
Proof. exact si_history_const_R. Qed.

Theorem C03_ctor_sinc_in_R : forall ratio maxrel env ilen inbr chunk nch s,
  (1 <= chunk)%Z -> (0 <= nch)%Z -> (8 <= ilen)%Z -> nbr_ok (se_type env) inbr ->
  @sinc_in_new CR SR ratio maxrel env ilen inbr chunk nch = inr (RSincIn env s) ->
  si_wf env s /\ ratio = sratio s /\ sL s = ilen.
Proof. exact si_ctor_wf_R. Qed.

(** The fixed-output types through non-ramped ratio changes: EVERY change the setter accepts is safe (the setter
    recomputes needed_input_size from the carried position; the constructor sizes the buffer for the smallest accepted
    ratio).  [ocall_ok (a, b, nxt, c)] is  a = nxt /\ b = c /\ 0 <= a  with nxt = input_frames_next() and c = chunk_size
    just before the call. *)
Theorem C03_fast_out_steps_safe_R : forall d blen ops (s : @astate CR SR (@FastFixedOut CR)), fo_wfe blen s ->
  match fo_run_ops d s ops with
  | Ok (s', log) => fo_wfe blen s' /\ oC s' = oC s /\ Forall ocall_ok log
  | Err _ => True
  | Panic _ | UB _ | Diverge => False
  end.
Proof. exact fo_history_steps_R. Qed.
Theorem C03_ctor_fast_out_steps_R : forall ratio maxrel d chunk nch s, (1 <= chunk)%Z -> (0 <= nch)%Z ->
  @fast_out_new CR SR ratio maxrel d chunk nch = inr (RFastOut d s) -> exists blen, fo_wfe blen s /\ ratio = oratio s.
Proof. exact fo_ctor_wfe_R. Qed.

(** SincFixedIn through non-ramped ratio changes and set_chunk_size: [sstep_compatible L rc r2] is the complement of the
    two recorded defect classes for sinc_len L (preroll-underflow: ceil(1/rc) - 1/r2 > L - 2; count-overrun:
    (ceil(1/rc) - ceil(1/r2)) * r2 > 8).  [scall_ok (a, b, c, adv)] is  a = c /\ 0 <= b <= adv  with c the chunk size
    and adv the output_frames_next() just before the call. *)
Theorem C03_sinc_in_steps_safe_R : forall env ops rc (s : @astate CR SR (@SincFixedIn CR)),
  si_wfs env rc s -> ssteps_compatible (sL s) rc (sratio s) ops ->
  match si_run_ops env s ops with
  | Ok (s', log) => (exists rc', si_wfs env rc' s') /\ sCmax s' = sCmax s /\ Forall scall_ok log
  | Err _ => True
  | Panic _ | UB _ | Diverge => False
  end.
Proof. exact si_history_steps_R. Qed.
Theorem C03_sinc_in_steps_start_R : forall env (s : @astate CR SR (@SincFixedIn CR)), si_wf env s -> si_wfs env (sratio s) s.
Proof. exact si_wf_wfs. Qed.

(** SincFixedOut, constant ratio, any set_chunk_size schedule *)
Theorem C03_sinc_out_call_safe_R : forall env blen (s : @astate CR SR (@SincFixedOut CR)) wi wo m,
  so_wf env blen s -> a_precheck (@so_arch CR SR env) s wi wo m = Ok tt ->
  exists s' outs,
    pib (@so_arch CR SR env) s wi wo m = Ok (s', (uneeded s, uC s), outs) /\ so_wf env blen s' /\
    uli s' = uli s + IZR (uC s) * / uratio s - IZR (uneeded s) /\
    uC s' = uC s /\ uCmax s' = uCmax s /\ unch s' = unch s /\ uratio s' = uratio s /\ uL s' = uL s /\ (0 <= uneeded s)%Z.
Proof. exact so_call_const_R. Qed.

Theorem C03_sinc_out_run_safe_R : forall env blen ops (s : @astate CR SR (@SincFixedOut CR)), so_wf env blen s ->
  (forall n, In (OChunk n) ops -> (0 <= n)%Z) ->
  match so_run env s ops with
  | Ok (s', nin, nout) => so_wf env blen s' /\ uratio s' = uratio s /\ uL s' = uL s /\ (0 <= nin)%Z /\ (0 <= nout)%Z /\
                          uli s' - uli s = IZR nout * / uratio s - IZR nin
  | Err _ => True
  | Panic _ | UB _ | Diverge => False
  end.
Proof. exact so_history_const_R. Qed.

Theorem C03_ctor_sinc_out_R : forall ratio maxrel env ilen inbr chunk nch s,
  (1 <= chunk)%Z -> (0 <= nch)%Z -> (8 <= ilen)%Z -> (ilen mod 2 = 0)%Z -> nbr_ok (se_type env) inbr ->
  @sinc_out_new CR SR ratio maxrel env ilen inbr chunk nch = inr (RSincOut env s) ->
  exists blen, so_wf env blen s /\ ratio = uratio s /\ uL s = ilen.
Proof. exact so_ctor_wf_R. Qed.

(** SincFixedOut through non-ramped ratio changes (any the setter accepts) and set_chunk_size *)
Theorem C03_sinc_out_steps_safe_R : forall env blen ops (s : @astate CR SR (@SincFixedOut CR)), so_wfe env blen s ->
  (forall n, In (U2Chunk n) ops -> (0 <= n)%Z) ->
  match so_run_ops env s ops with
  | Ok (s', log) => so_wfe env blen s' /\ uCmax s' = uCmax s /\ Forall ucall_ok log
  | Err _ => True
  | Panic _ | UB _ | Diverge => False
  end.
Proof. exact so_history_steps_R. Qed.
Theorem C03_ctor_sinc_out_steps_R : forall ratio maxrel env ilen inbr chunk nch s,
  (1 <= chunk)%Z -> (0 <= nch)%Z -> (8 <= ilen)%Z -> (ilen mod 2 = 0)%Z -> nbr_ok (se_type env) inbr ->
  @sinc_out_new CR SR ratio maxrel env ilen inbr chunk nch = inr (RSincOut env s) ->
  exists blen, so_wfe env blen s /\ ratio = uratio s /\ uL s = ilen.
Proof. exact so_ctor_wfe_R. Qed.

(** The three synchronous (FFT) resamplers.  [unit_fn] is the spectral core (forward FFT, filter, inverse FFT) as an
    oracle; what is assumed of it is its length contract (part of the invariant).  FftFixedInOut: any arithmetic (its
    control state is integer-only); FftFixedIn / FftFixedOut: ideal arithmetic (their f32 quotients read as real quotients). *)
Theorem C03_fft_inout_call_safe : forall (C : CNum) (S : SNum C) unit_fn (s : @fstate C S FftFixedInOut) wi wo m,
  xio_wf unit_fn s ->
  x_precheck (xio_mask_bad (fs_ctl s)) (xio_val_channels (fs_ctl s)) (xio_val_min_in (fs_ctl s))
             (xio_val_min_out (fs_ctl s)) (fs_mask s) wi wo m = Ok tt ->
  exists s' outs, xio_pib unit_fn s wi wo m = Ok (s', (xfin s, xfout s), outs) /\ xio_wf unit_fn s' /\
                  fs_ctl s' = fs_ctl s /\ map zlen outs = map zlen wo.
Proof. intros C S. exact (@xio_call_safe C S). Qed.

Theorem C03_fft_inout_run_safe : forall (C : CNum) (S : SNum C) unit_fn calls (s : @fstate C S FftFixedInOut), xio_wf unit_fn s ->
  match xio_run unit_fn s calls with
  | Ok (s', nin, nout) => xio_wf unit_fn s' /\ fs_ctl s' = fs_ctl s /\ exists k, (0 <= k /\ nin = k * xfin s /\ nout = k * xfout s)%Z
  | Err _ => True
  | Panic _ | UB _ | Diverge => False
  end.
Proof. intros C S. exact (@xio_history C S). Qed.

Theorem C03_fft_in_call_safe_R : forall unit_fn (s : @fstate CR SR FftFixedIn) wi wo m,
  xi_wf unit_fn s -> xi_pre s wi wo m = Ok tt ->
  let ready := ((isaved s + iC s) / ifin s)%Z in
  exists s' outs, @xi_pib CR SR unit_fn s wi wo m = Ok (s', (iC s, (ready * ifout s)%Z), outs) /\ xi_wf unit_fn s' /\
                  isaved s' = ((isaved s + iC s) mod ifin s)%Z /\
                  ifin s' = ifin s /\ ifout s' = ifout s /\ iC s' = iC s /\ inch s' = inch s.
Proof. exact xi_call_safe. Qed.

Theorem C03_fft_in_run_safe_R : forall unit_fn calls (s : @fstate CR SR FftFixedIn), xi_wf unit_fn s ->
  match xi_run unit_fn s calls with
  | Ok (s', nin, nout) => xi_wf unit_fn s' /\ ifin s' = ifin s /\ ifout s' = ifout s /\ iC s' = iC s /\ (0 <= nin)%Z /\
                          (nout * ifin s = ifout s * (nin + isaved s - isaved s'))%Z
  | Err _ => True
  | Panic _ | UB _ | Diverge => False
  end.
Proof. exact xi_history. Qed.

Theorem C03_fft_out_call_safe_R : forall unit_fn (s : @fstate CR SR FftFixedOut) wi wo m,
  xo_wf unit_fn s -> xo_pre s wi wo m = Ok tt ->
  exists s' outs, @xo_pib CR SR unit_fn s wi wo m = Ok (s', (oneed s, oCo s), outs) /\ xo_wf unit_fn s' /\
                  (osaved s' + oCo s = osaved s + (oneed s / ofin s) * ofout s)%Z /\
                  ofin s' = ofin s /\ ofout s' = ofout s /\ oCo s' = oCo s /\ onc s' = onc s.
Proof. exact xo_call_safe. Qed.

Theorem C03_fft_out_run_safe_R : forall unit_fn calls (s : @fstate CR SR FftFixedOut), xo_wf unit_fn s ->
  match xo_run unit_fn s calls with
  | Ok (s', nin, nout) => xo_wf unit_fn s' /\ ofin s' = ofin s /\ ofout s' = ofout s /\ oCo s' = oCo s /\ (0 <= nout)%Z /\
                          (nin * ofout s = ofin s * (nout + osaved s' - osaved s))%Z
  | Err _ => True
  | Panic _ | UB _ | Diverge => False
  end.
Proof. exact xo_history. Qed.

(** the constructors establish the invariants (given the length contract of the core for the block sizes they compute) *)
Theorem C03_ctor_fft_in_R : forall unit_fn rate_in rate_out chunk sub nch s,
  (0 < rate_in)%Z -> (0 < rate_out)%Z -> (1 <= chunk)%Z -> (0 <= nch)%Z ->
  @fft_in_new CR SR rate_in rate_out chunk sub nch = inr (RFftIn s) ->
  (forall w, zlen w = ifin s -> zlen (unit_fn w) = (2 * ifout s)%Z) ->
  xi_wf unit_fn s /\ (ifin s * rate_out = ifout s * rate_in)%Z /\ isaved s = 0%Z /\ iC s = chunk.
Proof. exact xi_ctor. Qed.

Theorem C03_ctor_fft_out_R : forall unit_fn rate_in rate_out chunk sub nch s,
  (0 < rate_in)%Z -> (0 < rate_out)%Z -> (1 <= chunk)%Z -> (0 <= nch)%Z ->
  @fft_out_new CR SR rate_in rate_out chunk sub nch = inr (RFftOut s) ->
  (forall w, zlen w = ofin s -> zlen (unit_fn w) = (2 * ofout s)%Z) ->
  xo_wf unit_fn s /\ (ofin s * rate_out = ofout s * rate_in)%Z /\ osaved s = 0%Z /\ oCo s = chunk.
Proof. exact xo_ctor. Qed.

Theorem C03_ctor_fft_inout : forall (C : CNum) (S : SNum C) unit_fn rate_in rate_out chunk nch s,
  (0 < rate_in)%Z -> (0 < rate_out)%Z -> (0 <= nch)%Z ->
  (0 <= xio_new_fft_chunks (C:=C) chunk (xio_new_min_chunk_in (xio_new_gcd rate_in rate_out) rate_in))%Z ->
  @fft_inout_new C S rate_in rate_out chunk nch = inr (RFftInOut s) ->
  (forall w, zlen w = xfin s -> zlen (unit_fn w) = (2 * xfout s)%Z) ->
  xio_wf unit_fn s /\ (xfin s * rate_out = xfout s * rate_in)%Z.
Proof. intros C S. exact (@xio_ctor C S). Qed.

(** the reads of the polynomial resampler are inside the buffer exactly when the window is *)
Theorem C03_fast_window_R : forall (st : @FastFixedIn CR) d (buf : list (@snum CR SR)) (idx : R),
  (0 <= Flocq.Core.Raux.Zfloor idx - reach_lo d + 16)%Z ->
  (Flocq.Core.Raux.Zfloor idx - reach_lo d + 16 + win_width d <= zlen buf)%Z ->
  exists v, @fast_sample CR SR (fi_arm st d) buf idx = Ok v.
Proof. exact fi_sample_ok_R. Qed.

(** Full statement, kept visible (not proved): all seven types, ratio changes, floating point. *)
Definition C03_full : Prop :=
  forall (S : SNum Floats.CB) unit_fn (s : @rstate Floats.CB S) ops,
    (* for s freshly constructed and ops a valid history *)
    forall o, In o (snd (@Driver.run Floats.CB S unit_fn s ops)) -> Driver.fatal o = false.

Print Assumptions C03_fast_in_call_safe_R.
Print Assumptions C03_fast_out_call_safe_R.
Print Assumptions C03_fast_in_run_safe_R.
Print Assumptions C03_fast_out_run_safe_R.
Print Assumptions C03_ctor_fast_out_R.
Print Assumptions C03_sinc_in_call_safe_R.
Print Assumptions C03_sinc_in_run_safe_R.
Print Assumptions C03_ctor_sinc_in_R.
Print Assumptions C03_sinc_out_call_safe_R.
Print Assumptions C03_sinc_out_run_safe_R.
Print Assumptions C03_ctor_sinc_out_R.
Print Assumptions C03_fft_inout_call_safe.
Print Assumptions C03_fft_inout_run_safe.
Print Assumptions C03_fft_in_call_safe_R.
Print Assumptions C03_fft_in_run_safe_R.
Print Assumptions C03_fft_out_call_safe_R.
Print Assumptions C03_fft_out_run_safe_R.
Print Assumptions C03_ctor_fft_in_R.
Print Assumptions C03_ctor_fft_out_R.
Print Assumptions C03_ctor_fft_inout.
Print Assumptions C03_fast_in_steps_safe_R.
Print Assumptions C03_sinc_in_steps_safe_R.
Print Assumptions C03_fast_out_steps_safe_R.
Print Assumptions C03_sinc_out_steps_safe_R.
Print Assumptions C03_ctor_sinc_out_steps_R.
