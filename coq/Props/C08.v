(** C08 — Polynomial resamplers reproduce polynomials up to their degree exactly.
    Statements only; proofs are in Proofs/PolyExact.v.  The interpolators are the
    *generated* definitions of Gen/FastGen.v (regenerated from asynchro_fast.rs on
    every run), read in ideal arithmetic (instance CR/SR).                       *)
From Coq Require Import Reals List.
From Rubato.Model Require Import Num Reals.
From Rubato.Gen Require Import FastGen SincGen.
From Rubato.Proofs Require Import PolyExact.
Import ListNotations.
Local Open Scope R_scope.

Theorem C08_septic_exact_R : forall c0 c1 c2 c3 c4 c5 c6 c7 x,
  let p := poly7 c0 c1 c2 c3 c4 c5 c6 c7 in
  @fast_interp_septic CR SR x [p (-3); p (-2); p (-1); p 0; p 1; p 2; p 3; p 4] = p x.
Proof. exact septic_exact. Qed.

Theorem C08_quintic_exact_R : forall c0 c1 c2 c3 c4 c5 x,
  let p := poly7 c0 c1 c2 c3 c4 c5 0 0 in
  @fast_interp_quintic CR SR x [p (-2); p (-1); p 0; p 1; p 2; p 3] = p x.
Proof. exact quintic_exact. Qed.

Theorem C08_cubic_exact_R : forall c0 c1 c2 c3 x,
  let p := poly7 c0 c1 c2 c3 0 0 0 0 in
  @fast_interp_cubic CR SR x [p (-1); p 0; p 1; p 2] = p x.
Proof. exact cubic_exact. Qed.

Theorem C08_linear_exact_R : forall c0 c1 x,
  let p := poly7 c0 c1 0 0 0 0 0 0 in
  @fast_interp_lin CR SR x [p 0; p 1] = p x.
Proof. exact lin_exact. Qed.

(* linearity in the samples: with exactness on all polynomials of the degree this
   identifies each interpolator with the unique interpolating polynomial *)
Theorem C08_septic_linear_R : forall a x u0 u1 u2 u3 u4 u5 u6 u7 v0 v1 v2 v3 v4 v5 v6 v7,
  @fast_interp_septic CR SR x (lincomb a [u0;u1;u2;u3;u4;u5;u6;u7] [v0;v1;v2;v3;v4;v5;v6;v7]) =
  a * @fast_interp_septic CR SR x [u0;u1;u2;u3;u4;u5;u6;u7] + @fast_interp_septic CR SR x [v0;v1;v2;v3;v4;v5;v6;v7].
Proof. exact septic_linear. Qed.
Theorem C08_quintic_linear_R : forall a x u0 u1 u2 u3 u4 u5 v0 v1 v2 v3 v4 v5,
  @fast_interp_quintic CR SR x (lincomb a [u0;u1;u2;u3;u4;u5] [v0;v1;v2;v3;v4;v5]) =
  a * @fast_interp_quintic CR SR x [u0;u1;u2;u3;u4;u5] + @fast_interp_quintic CR SR x [v0;v1;v2;v3;v4;v5].
Proof. exact quintic_linear. Qed.
Theorem C08_cubic_linear_R : forall a x u0 u1 u2 u3 v0 v1 v2 v3,
  @fast_interp_cubic CR SR x (lincomb a [u0;u1;u2;u3] [v0;v1;v2;v3]) =
  a * @fast_interp_cubic CR SR x [u0;u1;u2;u3] + @fast_interp_cubic CR SR x [v0;v1;v2;v3].
Proof. exact cubic_linear. Qed.
Theorem C08_linear_linear_R : forall a x u0 u1 v0 v1,
  @fast_interp_lin CR SR x (lincomb a [u0;u1] [v0;v1]) =
  a * @fast_interp_lin CR SR x [u0;u1] + @fast_interp_lin CR SR x [v0;v1].
Proof. exact lin_linear. Qed.

(* non-vacuity: a concrete septic polynomial *)
Example C08_example : @fast_interp_septic CR SR (1/2)
  (let p := poly7 1 2 3 4 5 6 7 8 in [p (-3); p (-2); p (-1); p 0; p 1; p 2; p 3; p 4]) = poly7 1 2 3 4 5 6 7 8 (1/2).
Proof. apply septic_exact. Qed.

(** Unproved part of the property, kept visible: the classical interpolation error
    bound for sinusoids (stated, not proved here for degrees above 1). *)
Definition C08_sine_full : Prop :=
  forall (f : R) (x : R), 0 <= f <= 1/2 -> 0 <= x < 1 ->
    Rabs (@fast_interp_cubic CR SR x (map (fun n => sin (2 * PI * f * n)) [-1; 0; 1; 2]) - sin (2 * PI * f * x))
    <= (2 * PI * f) ^ 4 * (3 / 128).

Print Assumptions C08_septic_exact_R.
Print Assumptions C08_quintic_exact_R.
Print Assumptions C08_cubic_exact_R.
Print Assumptions C08_linear_exact_R.
Print Assumptions C08_septic_linear_R.
