(** C08 — Polynomial resamplers reproduce polynomials up to their degree exactly.
    Statements only; proofs are in Proofs/PolyExact.v.  The interpolators are the
    *generated* definitions of Gen/FastGen.v (regenerated from asynchro_fast.rs on
    every run), read in ideal arithmetic (instance CR/SR).                       *)
From Coq Require Import Reals List.
From Rubato.Model Require Import Num Reals.
From Rubato.Gen Require Import FastGen SincGen.
From Rubato.Proofs Require Import PolyExact InterpErr InterpErrGen.
Import ListNotations.
Local Open Scope R_scope.

Theorem C08_septic_exact_R : forall c0 c1 c2 c3 c4 c5 c6 c7 x,
  let p := poly7 c0 c1 c2 c3 c4 c5 c6 c7 in
  @fast_interp_septic CR SR x [p (-3); p (-2); p (-1); p 0; p 1; p 2; p 3; p 4] = p x.
Proof. exact septic_exact. Qed.

Theorem C08_quintic_exact_R : forall c0 c1 c2 c3 c4 c5 x,
  let p := poly7 c0 c1 c2 c3 c4 c5 0 0 in
  @fast_interp_quintic CR SR x [p (-2); p (-1); p 0; p 1; p 2; p 3] = p x.
Proof. exact quintic_exact. Qed.

Theorem C08_cubic_exact_R : forall c0 c1 c2 c3 x,
  let p := poly7 c0 c1 c2 c3 0 0 0 0 in
  @fast_interp_cubic CR SR x [p (-1); p 0; p 1; p 2] = p x.
Proof. exact cubic_exact. Qed.

Theorem C08_linear_exact_R : forall c0 c1 x,
  let p := poly7 c0 c1 0 0 0 0 0 0 in
  @fast_interp_lin CR SR x [p 0; p 1] = p x.
Proof. exact lin_exact. Qed.

(* linearity in the samples: with exactness on all polynomials of the degree this
   identifies each interpolator with the unique interpolating polynomial *)
Theorem C08_septic_linear_R : forall a x u0 u1 u2 u3 u4 u5 u6 u7 v0 v1 v2 v3 v4 v5 v6 v7,
  @fast_interp_septic CR SR x (lincomb a [u0;u1;u2;u3;u4;u5;u6;u7] [v0;v1;v2;v3;v4;v5;v6;v7]) =
  a * @fast_interp_septic CR SR x [u0;u1;u2;u3;u4;u5;u6;u7] + @fast_interp_septic CR SR x [v0;v1;v2;v3;v4;v5;v6;v7].
Proof. exact septic_linear. Qed.
Theorem C08_quintic_linear_R : forall a x u0 u1 u2 u3 u4 u5 v0 v1 v2 v3 v4 v5,
  @fast_interp_quintic CR SR x (lincomb a [u0;u1;u2;u3;u4;u5] [v0;v1;v2;v3;v4;v5]) =
  a * @fast_interp_quintic CR SR x [u0;u1;u2;u3;u4;u5] + @fast_interp_quintic CR SR x [v0;v1;v2;v3;v4;v5].
Proof. exact quintic_linear. Qed.
Theorem C08_cubic_linear_R : forall a x u0 u1 u2 u3 v0 v1 v2 v3,
  @fast_interp_cubic CR SR x (lincomb a [u0;u1;u2;u3] [v0;v1;v2;v3]) =
  a * @fast_interp_cubic CR SR x [u0;u1;u2;u3] + @fast_interp_cubic CR SR x [v0;v1;v2;v3].
Proof. exact cubic_linear. Qed.
Theorem C08_linear_linear_R : forall a x u0 u1 v0 v1,
  @fast_interp_lin CR SR x (lincomb a [u0;u1] [v0;v1]) =
  a * @fast_interp_lin CR SR x [u0;u1] + @fast_interp_lin CR SR x [v0;v1].
Proof. exact lin_linear. Qed.

(* non-vacuity: a concrete septic polynomial *)
Example C08_example : @fast_interp_septic CR SR (1/2)
  (let p := poly7 1 2 3 4 5 6 7 8 in [p (-3); p (-2); p (-1); p 0; p 1; p 2; p 3; p 4]) = poly7 1 2 3 4 5 6 7 8 (1/2).
Proof. apply septic_exact. Qed.

(** The classical interpolation error bound (Proofs/InterpErr.v: generalised Rolle on a chain
    of derivatives; Proofs/InterpErrGen.v: the generated interpolators are the Lagrange form on
    their nodes).  F 0 is the function, F (k+1) the derivative of F k; M bounds the (n+1)-th
    derivative; x is the fractional position between the two central nodes. *)
Theorem C08_linear_error_R : forall (F : nat -> R -> R) M, chain F -> forall x,
  (forall xi, Rabs (F 2%nat xi) <= M) -> 0 <= x <= 1 ->
  Rabs (@fast_interp_lin CR SR x [F 0%nat 0; F 0%nat 1] - F 0%nat x) <= M / INR (fact 2) * Rabs (x * (x - 1)).
Proof. exact lin_error. Qed.
Theorem C08_cubic_error_R : forall (F : nat -> R -> R) M, chain F -> forall x,
  (forall xi, Rabs (F 4%nat xi) <= M) -> 0 <= x <= 1 ->
  Rabs (@fast_interp_cubic CR SR x [F 0%nat (-1); F 0%nat 0; F 0%nat 1; F 0%nat 2] - F 0%nat x)
  <= M / INR (fact 4) * Rabs ((x + 1) * x * (x - 1) * (x - 2)).
Proof. exact cubic_error. Qed.
Theorem C08_quintic_error_R : forall (F : nat -> R -> R) M, chain F -> forall x,
  (forall xi, Rabs (F 6%nat xi) <= M) -> 0 <= x <= 1 ->
  Rabs (@fast_interp_quintic CR SR x [F 0%nat (-2); F 0%nat (-1); F 0%nat 0; F 0%nat 1; F 0%nat 2; F 0%nat 3] - F 0%nat x)
  <= M / INR (fact 6) * Rabs ((x + 2) * (x + 1) * x * (x - 1) * (x - 2) * (x - 3)).
Proof. exact quintic_error. Qed.
Theorem C08_septic_error_R : forall (F : nat -> R -> R) M, chain F -> forall x,
  (forall xi, Rabs (F 8%nat xi) <= M) -> 0 <= x <= 1 ->
  Rabs (@fast_interp_septic CR SR x [F 0%nat (-3); F 0%nat (-2); F 0%nat (-1); F 0%nat 0; F 0%nat 1; F 0%nat 2; F 0%nat 3; F 0%nat 4] - F 0%nat x)
  <= M / INR (fact 8) * Rabs ((x + 3) * (x + 2) * (x + 1) * x * (x - 1) * (x - 2) * (x - 3) * (x - 4)).
Proof. exact septic_error. Qed.

(** sinusoids  A sin(w t + p)  (w = 2 pi f radians per input sample), any amplitude and phase *)
Theorem C08_linear_sine_R : forall A w p x, 0 <= w -> 0 <= x <= 1 ->
  let f := fun t => A * sin (w * t + p) in
  Rabs (@fast_interp_lin CR SR x [f 0; f 1] - f x) <= Rabs A * w ^ 2 * (1 / 8).
Proof. exact lin_sine. Qed.
Theorem C08_cubic_sine_R : forall A w p x, 0 <= w -> 0 <= x <= 1 ->
  let f := fun t => A * sin (w * t + p) in
  Rabs (@fast_interp_cubic CR SR x [f (-1); f 0; f 1; f 2] - f x) <= Rabs A * w ^ 4 * (3 / 128).
Proof. exact cubic_sine. Qed.
Theorem C08_quintic_sine_R : forall A w p x, 0 <= w -> 0 <= x <= 1 ->
  let f := fun t => A * sin (w * t + p) in
  Rabs (@fast_interp_quintic CR SR x [f (-2); f (-1); f 0; f 1; f 2; f 3] - f x) <= Rabs A * w ^ 6 * (5 / 1024).
Proof. exact quintic_sine. Qed.
Theorem C08_septic_sine_R : forall A w p x, 0 <= w -> 0 <= x <= 1 ->
  let f := fun t => A * sin (w * t + p) in
  Rabs (@fast_interp_septic CR SR x [f (-3); f (-2); f (-1); f 0; f 1; f 2; f 3; f 4] - f x) <= Rabs A * w ^ 8 * (35 / 32768).
Proof. exact septic_sine. Qed.

(** the statement kept visible as "unproved" since the design, now a theorem *)
Definition C08_sine_full : Prop :=
  forall (f : R) (x : R), 0 <= f <= 1/2 -> 0 <= x < 1 ->
    Rabs (@fast_interp_cubic CR SR x (map (fun n => sin (2 * PI * f * n)) [-1; 0; 1; 2]) - sin (2 * PI * f * x))
    <= (2 * PI * f) ^ 4 * (3 / 128).
Theorem C08_sine_full_proved : C08_sine_full.
Proof. exact cubic_sine_unit. Qed.

(* non-vacuity: sin itself is a chain (amplitude 1, w = 1, phase 0) *)
Theorem C08_chain_example : chain (sinF 1 1 0) /\ forall s, sinF 1 1 0 0%nat s = 1 * sin (1 * s + 0).
Proof. split; [apply sinF_chain|intros s; apply sinF_0]. Qed.

Print Assumptions C08_septic_exact_R.
Print Assumptions C08_quintic_exact_R.
Print Assumptions C08_cubic_exact_R.
Print Assumptions C08_linear_exact_R.
Print Assumptions C08_septic_linear_R.
Print Assumptions C08_linear_error_R.
Print Assumptions C08_cubic_error_R.
Print Assumptions C08_quintic_error_R.
Print Assumptions C08_septic_error_R.
Print Assumptions C08_linear_sine_R.
Print Assumptions C08_cubic_sine_R.
Print Assumptions C08_quintic_sine_R.
Print Assumptions C08_septic_sine_R.
Print Assumptions C08_sine_full_proved.
