(* Correspondence driver: replays a history file on the extracted Coq model and
   prints the same trace lines as the Rust harness.  No arithmetic of its own:
   it only converts between text and the extracted datatypes. *)
open Model

(* ---------- Z / positive <-> OCaml ---------- *)
let rec pos_of_int64u (x : int64) : positive =
  (* x > 0 as unsigned *)
  if Int64.equal x 1L then XH
  else
    let rest = pos_of_int64u (Int64.shift_right_logical x 1) in
    if Int64.equal (Int64.logand x 1L) 1L then XI rest else XO rest

let z_of_int64u (x : int64) : z = if Int64.equal x 0L then Z0 else Zpos (pos_of_int64u x)

let z_of_int (i : int) : z =
  if i = 0 then Z0
  else if i > 0 then Zpos (pos_of_int64u (Int64.of_int i))
  else Zneg (pos_of_int64u (Int64.of_int (-i)))

let rec int64u_of_pos (p : positive) : int64 =
  match p with
  | XH -> 1L
  | XO q -> Int64.shift_left (int64u_of_pos q) 1
  | XI q -> Int64.logor (Int64.shift_left (int64u_of_pos q) 1) 1L

let int64u_of_z (x : z) : int64 = match x with Z0 -> 0L | Zpos p -> int64u_of_pos p | Zneg p -> Int64.neg (int64u_of_pos p)

let string_of_z (x : z) : string =
  match x with
  | Z0 -> "0"
  | Zpos p -> Printf.sprintf "%Lu" (int64u_of_pos p)
  | Zneg p -> "-" ^ Printf.sprintf "%Lu" (int64u_of_pos p)

let z_of_string (s : string) : z =
  if String.length s > 0 && s.[0] = '-' then
    (match z_of_int64u (Int64.of_string ("0u" ^ String.sub s 1 (String.length s - 1))) with
     | Zpos p -> Zneg p | x -> x)
  else z_of_int64u (Int64.of_string ("0u" ^ s))

let rec nat_of_int n = if n <= 0 then O else S (nat_of_int (n - 1))

(* ---------- sample types ---------- *)
type sty = F64 | F32

let sty = ref F64
let dict () : sNum = match !sty with F64 -> s64 | F32 -> s32

let sample_of_hex (h : string) : snum =
  let bits = Int64.of_string ("0x" ^ h) in
  match !sty with
  | F64 -> Obj.magic (f64_of_bits (z_of_int64u bits))
  | F32 -> Obj.magic (f32_of_bits (z_of_int64u bits))

let hex_of_sample (x : snum) : string =
  match !sty with
  | F64 -> Printf.sprintf "%016Lx" (int64u_of_z (bits_of_f64 (Obj.magic x)))
  | F32 -> Printf.sprintf "%08Lx" (int64u_of_z (bits_of_f32 (Obj.magic x)))

let c_of_hex (h : string) : cnum = Obj.magic (f64_of_bits (z_of_int64u (Int64.of_string ("0x" ^ h))))
let hex_of_c (x : cnum) : string = Printf.sprintf "%016Lx" (int64u_of_z (bits_of_f64 (Obj.magic x)))
let c32_of_hex (h : string) : c32 = Obj.magic (f32_of_bits (z_of_int64u (Int64.of_string ("0x" ^ h))))
let hex_of_c32 (x : c32) : string = Printf.sprintf "%08Lx" (int64u_of_z (bits_of_f32 (Obj.magic x)))

(* ---------- parsing helpers ---------- *)
let split c s = if s = "" then [] else String.split_on_char c s

let samples_of (s : string) : snum list =
  List.concat_map (fun tok ->
      match String.index_opt tok '*' with
      | Some i ->
        let n = int_of_string (String.sub tok 0 i) in
        let x = sample_of_hex (String.sub tok (i + 1) (String.length tok - i - 1)) in
        List.init n (fun _ -> x)
      | None -> [sample_of_hex tok])
    (split ',' s)

(* channels: "~" = no channels; otherwise ';'-separated, each ','-separated (possibly empty) *)
let chans_of (s : string) : snum list list =
  if s = "~" then [] else List.map samples_of (String.split_on_char ';' s)

let mask_of (s : string) : bool list option =
  if s = "-" then None
  else if s = "~" then Some []
  else Some (List.init (String.length s) (fun i -> s.[i] = '1'))

let str_samples (l : snum list) = String.concat "," (List.map hex_of_sample l)

let kv (line : string) : (string * string) list =
  List.filter_map (fun tok ->
      match String.index_opt tok '=' with
      | Some i -> Some (String.sub tok 0 i, String.sub tok (i + 1) (String.length tok - i - 1))
      | None -> None)
    (String.split_on_char ' ' line)

let get kvs k = try List.assoc k kvs with Not_found -> failwith ("missing field " ^ k)
let geti kvs k = z_of_string (get kvs k)

(* ---------- the FFT unit oracle: table of recorded (input block -> inverse transform) ---------- *)
let unit_tbl : (string, snum list) Hashtbl.t = Hashtbl.create 64
let unit_missing = ref 0

let unit_fn (blk : snum list) : snum list =
  let key = str_samples blk in
  match Hashtbl.find_opt unit_tbl key with
  | Some r -> r
  | None -> incr unit_missing; []

(* ---------- printing ---------- *)
let degree_of = function "0" -> Septic | "1" -> Quintic | "2" -> Cubic | "3" -> Linear | _ -> NearestDeg
let stype_of = function "0" -> SCubic | "1" -> SQuadratic | "2" -> SLinear | _ -> SNearest
let kind_of = function "0" -> KScalar | "1" -> KSse32 | "2" -> KSse64 | "3" -> KAvx32 | _ -> KAvx64

let print_err (e : rerr) =
  match e with
  | ErrRatioOutOfBounds (p, o, m) -> Printf.printf "R err RatioOutOfBounds %s %s %s\n" (hex_of_c p) (hex_of_c o) (hex_of_c m)
  | ErrSyncNotAdjustable -> print_string "R err SyncNotAdjustable\n"
  | ErrWrongNumberOfInputChannels (e, a) -> Printf.printf "R err WrongNumberOfInputChannels %s %s\n" (string_of_z e) (string_of_z a)
  | ErrWrongNumberOfOutputChannels (e, a) -> Printf.printf "R err WrongNumberOfOutputChannels %s %s\n" (string_of_z e) (string_of_z a)
  | ErrWrongNumberOfMaskChannels (e, a) -> Printf.printf "R err WrongNumberOfMaskChannels %s %s\n" (string_of_z e) (string_of_z a)
  | ErrInsufficientInputBufferSize (c, e, a) -> Printf.printf "R err InsufficientInputBufferSize %s %s %s\n" (string_of_z c) (string_of_z e) (string_of_z a)
  | ErrInsufficientOutputBufferSize (c, e, a) -> Printf.printf "R err InsufficientOutputBufferSize %s %s %s\n" (string_of_z c) (string_of_z e) (string_of_z a)
  | ErrInvalidChunkSize (m, r) -> Printf.printf "R err InvalidChunkSize %s %s\n" (string_of_z m) (string_of_z r)
  | ErrChunkSizeNotAdjustable -> print_string "R err ChunkSizeNotAdjustable\n"

let print_chans tag (outs : snum list list) =
  List.iteri (fun i o -> Printf.printf "%s %d %s\n" tag i (str_samples o)) outs

let print_state (s : rstate) =
  let g = r_getters cB (dict ()) s in
  Printf.printf "G %s %s %s %s %s %s\n" (string_of_z g.g_in_max) (string_of_z g.g_in_next) (string_of_z g.g_out_max)
    (string_of_z g.g_out_next) (string_of_z g.g_delay) (string_of_z g.g_nch);
  (match s with
   | RFastIn (_, a) -> let c = a.as_ctl in
     Printf.printf "S %s %s %s %s\n" (string_of_z c.fastFixedIn_chunk_size) (hex_of_c c.fastFixedIn_last_index)
       (hex_of_c c.fastFixedIn_resample_ratio) (hex_of_c c.fastFixedIn_target_ratio)
   | RFastOut (_, a) -> let c = a.as_ctl in
     Printf.printf "S %s %s %s %s %s %s\n" (string_of_z c.fastFixedOut_chunk_size) (hex_of_c c.fastFixedOut_last_index)
       (hex_of_c c.fastFixedOut_resample_ratio) (hex_of_c c.fastFixedOut_target_ratio)
       (string_of_z c.fastFixedOut_needed_input_size) (string_of_z c.fastFixedOut_current_buffer_fill)
   | RSincIn (_, a) -> let c = a.as_ctl in
     Printf.printf "S %s %s %s %s %s\n" (string_of_z c.sincFixedIn_chunk_size) (hex_of_c c.sincFixedIn_last_index)
       (hex_of_c c.sincFixedIn_resample_ratio) (hex_of_c c.sincFixedIn_target_ratio) (string_of_z c.sincFixedIn_max_chunk_size)
   | RSincOut (_, a) -> let c = a.as_ctl in
     Printf.printf "S %s %s %s %s %s %s %s\n" (string_of_z c.sincFixedOut_chunk_size) (hex_of_c c.sincFixedOut_last_index)
       (hex_of_c c.sincFixedOut_resample_ratio) (hex_of_c c.sincFixedOut_target_ratio) (string_of_z c.sincFixedOut_max_chunk_size)
       (string_of_z c.sincFixedOut_needed_input_size) (string_of_z c.sincFixedOut_current_buffer_fill)
   | RFftIn f -> let c = f.fs_ctl in
     Printf.printf "S %s %s %s %s\n" (string_of_z c.fftFixedIn_chunk_size_in) (string_of_z c.fftFixedIn_fft_size_in)
       (string_of_z c.fftFixedIn_fft_size_out) (string_of_z c.fftFixedIn_saved_frames)
   | RFftOut f -> let c = f.fs_ctl in
     Printf.printf "S %s %s %s %s %s\n" (string_of_z c.fftFixedOut_chunk_size_out) (string_of_z c.fftFixedOut_fft_size_in)
       (string_of_z c.fftFixedOut_fft_size_out) (string_of_z c.fftFixedOut_saved_frames) (string_of_z c.fftFixedOut_frames_needed)
   | RFftInOut f -> let c = f.fs_ctl in
     Printf.printf "S %s %s %s\n" (string_of_z c.fftFixedInOut_chunk_size_in) (string_of_z c.fftFixedInOut_chunk_size_out)
       (string_of_z c.fftFixedInOut_fft_size_in));
  print_chans "B" (r_buffers cB (dict ()) s)

let state : rstate option ref = ref None
let dead = ref false

let print_outcome (o : outcome) =
  match o with
  | OCounts (a, b, outs) -> Printf.printf "R counts %s %s\n" (string_of_z a) (string_of_z b); print_chans "O" outs
  | OVecs outs -> print_string "R vecs\n"; print_chans "O" outs
  | OUnit -> print_string "R unit\n"
  | OErr e -> print_err e
  | OPanic _ -> print_string "R panic\n"; dead := true
  | OUB _ -> print_string "R abort\n"; dead := true
  | ODiverge -> print_string "R diverge\n"; dead := true

let do_op (o : op) =
  match !state with
  | None -> ()
  | Some s ->
    if not !dead then begin
      let (s', out) = step cB (dict ()) unit_fn s o in
      state := Some s';
      print_outcome out;
      if not !dead then print_state s'
    end

let rows : snum list list ref = ref []

let handle_new kvs =
  let d = dict () in
  let r =
    match get kvs "kind" with
    | "fastin" -> fast_in_new cB d (c_of_hex (get kvs "ratio")) (c_of_hex (get kvs "maxrel")) (degree_of (get kvs "deg")) (geti kvs "chunk") (geti kvs "nch")
    | "fastout" -> fast_out_new cB d (c_of_hex (get kvs "ratio")) (c_of_hex (get kvs "maxrel")) (degree_of (get kvs "deg")) (geti kvs "chunk") (geti kvs "nch")
    | "sincin" | "sincout" as k ->
      let env = { se_kind = kind_of (get kvs "kern"); se_sincs = List.rev !rows; se_type = stype_of (get kvs "itype") } in
      (if k = "sincin" then sinc_in_new else sinc_out_new) cB d (c_of_hex (get kvs "ratio")) (c_of_hex (get kvs "maxrel")) env
        (geti kvs "ilen") (geti kvs "inbr") (geti kvs "chunk") (geti kvs "nch")
    | "fftin" -> fft_in_new cB d (geti kvs "rin") (geti kvs "rout") (geti kvs "chunk") (geti kvs "sub") (geti kvs "nch")
    | "fftout" -> fft_out_new cB d (geti kvs "rin") (geti kvs "rout") (geti kvs "chunk") (geti kvs "sub") (geti kvs "nch")
    | "fftinout" -> fft_inout_new cB d (geti kvs "rin") (geti kvs "rout") (geti kvs "chunk") (geti kvs "nch")
    | k -> failwith ("unknown kind " ^ k)
  in
  match r with
  | Inl (CErrInvalidSampleRate (a, b)) -> Printf.printf "NEW err InvalidSampleRate %s %s\n" (string_of_z a) (string_of_z b)
  | Inl (CErrInvalidRelativeRatio v) -> Printf.printf "NEW err InvalidRelativeRatio %s\n" (hex_of_c v)
  | Inl (CErrInvalidRatio v) -> Printf.printf "NEW err InvalidRatio %s\n" (hex_of_c v)
  | Inr s -> print_string "NEW ok\n"; state := Some s; print_state s

let ints_of s = List.map z_of_string (split ',' s)

let handle_fn kvs =
  let d = dict () in
  match get kvs "f" with
  | "interp" ->
    let f = match get kvs "name" with
      | "fast_septic" -> fast_interp_septic | "fast_quintic" -> fast_interp_quintic | "fast_cubic" -> fast_interp_cubic
      | "fast_lin" -> fast_interp_lin | "sinc_cubic" -> sinc_interp_cubic | "sinc_quad" -> sinc_interp_quad
      | "sinc_lin" -> sinc_interp_lin | n -> failwith n in
    Printf.printf "V %s\n" (hex_of_sample (f cB d (sample_of_hex (get kvs "x")) (samples_of (get kvs "y"))))
  | "nearest" ->
    let t = c_of_hex (get kvs "t") and factor = geti kvs "factor" in
    let pts = match get kvs "n" with
      | "1" -> [x_nearest1 t factor] | "2" -> x_nearest2 t factor | "3" -> x_nearest3 t factor | _ -> x_nearest4 t factor in
    Printf.printf "V %s\n" (String.concat " " (List.map (fun (a, b) -> string_of_z a ^ ":" ^ string_of_z b) pts))
  | "kernel" ->
    Printf.printf "V %s\n" (hex_of_sample (kernel cB d (kind_of (get kvs "kern")) (samples_of (get kvs "w")) (samples_of (get kvs "s"))))
  | "validate" ->
    let m = match mask_of (get kvs "mask") with Some m -> m | None -> [] in
    (match x_validate (ints_of (get kvs "inl")) (ints_of (get kvs "outl")) m (geti kvs "ch") (geti kvs "minin") (geti kvs "minout") with
     | Ok _ -> print_string "R unit\n"
     | Err e -> print_err e
     | _ -> print_string "R panic\n")
  | "mi" ->
    Printf.printf "V %s %s\n" (string_of_z (x_mi_sinc_len (geti kvs "len")))
      (hex_of_c32 (x_mi_f_cutoff (c32_of_hex (get kvs "fc")) (c_of_hex (get kvs "ratio"))))
  | f -> failwith ("unknown fn " ^ f)

let () =
  let ic = if Array.length Sys.argv > 1 then open_in Sys.argv.(1) else stdin in
  let lines = ref [] in
  (try while true do lines := String.trim (input_line ic) :: !lines done with End_of_file -> ());
  let lines = List.filter (fun l -> l <> "" && l.[0] <> '#') (List.rev !lines) in
  let cmd_of line = let sp = try String.index line ' ' with Not_found -> String.length line in String.sub line 0 sp in
  List.iter (fun line -> if cmd_of line = "T" then sty := (if get (kv line) "ty" = "f32" then F32 else F64)) lines;
  (* pass 1: the oracle table (recorded FFT unit results may follow the operation that produced them) *)
  List.iter (fun line ->
      if cmd_of line = "UNIT" then
        let kvs = kv line in
        Hashtbl.replace unit_tbl (str_samples (samples_of (get kvs "i"))) (samples_of (get kvs "o")))
    lines;
  (* pass 2 *)
  List.iter (fun line ->
      let cmd = cmd_of line in
      let kvs = kv line in
      if not (!dead && cmd <> "FN") then
      match cmd with
      | "T" -> sty := (if get kvs "ty" = "f32" then F32 else F64)
      | "ROW" -> rows := samples_of (get kvs "v") :: !rows
      | "UNIT" -> ()
      | "NEW" -> handle_new kvs
      | "FN" -> handle_fn kvs
      | "PIB" -> do_op (OpPib (chans_of (get kvs "in"), chans_of (get kvs "out"), mask_of (get kvs "mask")))
      | "PROCESS" -> do_op (OpProcess (chans_of (get kvs "in"), mask_of (get kvs "mask")))
      | "PARTIALINTO" ->
        let wi = if get kvs "in" = "none" then None else Some (chans_of (get kvs "in")) in
        do_op (OpPartialInto (wi, chans_of (get kvs "out"), mask_of (get kvs "mask")))
      | "PARTIAL" ->
        let wi = if get kvs "in" = "none" then None else Some (chans_of (get kvs "in")) in
        do_op (OpPartial (wi, mask_of (get kvs "mask")))
      | "SETRATIO" -> do_op (OpSetRatio (c_of_hex (get kvs "x"), get kvs "ramp" = "1"))
      | "SETREL" -> do_op (OpSetRel (c_of_hex (get kvs "x"), get kvs "ramp" = "1"))
      | "SETCHUNK" -> do_op (OpSetChunk (geti kvs "n"))
      | "RESET" -> do_op OpReset
      | c -> failwith ("unknown command " ^ c))
    lines;
  if !unit_missing > 0 then Printf.printf "UNITMISS %d\n" !unit_missing
